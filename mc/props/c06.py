'''
C06 -- Prebuilt instances form a well-formed, correctly typed population.

E2, same host model, homes, program families and run engine as C05
(mc/refs/prebuildhost.py).  After bridgepoint.prebuild_action / prebuild_model
of every program in every home the population is checked:
(1) metamodel.is_consistent() and an independent count of multiplicity and
uniqueness violations (constraints read from the schema text, evaluated on the
persisted attribute values); (2) exactly one subtype per ACT_SMT across R603
and per V_VAL across R801, counted over all subtype classes; (3) the persisted
ACT_SMT.Previous_Statement_ID, V_PAR.Next_Value_ID and ACT_LNK.Next_Link_ID
designate the neighbour in source order; (4) ACT_SMT / V_VAL line and columns
equal the spans recorded by the printer (three layouts, one of them with comments
holding the characters other tools take for line ends; also after the parser
rejected another text in the same process -- the history family); (5) every V_VAR is
related (R823) to the block that declares it; (6) R820 / R848 data types equal
the OAL types for the cases the property enumerates (also with the keywords
of the program in UPPER / Capitalised spelling; also for attributes, parameters
and return values declared with user data types, one of them two levels above
its core type: the declared type, not the core type), and they ARE the data types
visible from the home: in the components family the host has three components
declaring classes, associations, functions, an external entity and operations
of the same names with other types, the homes being in the middle one; in the
handles family attributes named like something the translation knows (length,
Length, sender) are read and written through every kind of handle expression
(variable, self, selected, parameter, array element, attribute and structure
member holding a handle, chains of them) next to genuine <array>.length reads.
'''
from mc.props import c05 as C05
from mc.refs import prebuildhost as H

NEEDS_BRIDGEPOINT = True
PROP = 'c06'
BUDGET_S = {'quick': 3600, 'thorough': 14400}
KWCASE_BOTH = ('statements', 'expressions', 'names')      # families rendered in UPPER and in Capitalised keywords (quick)
REMARK_FAMILIES = ('statements', 'nesting')            # families laid out with comments holding odd characters (quick)
JOINED_FAMILIES = ('statements', 'nesting')            # families laid out with statements joined to the end of multi-line tokens (quick)

ASSUMPTIONS = C05.ASSUMPTIONS[2:] + [
    'the statements of a block, the parameters of a call and the clauses of an if are paired with the program by source position, '
    'parameter name and condition position; only when that pairing fails the creation order of the instances is used (and the position '
    'mismatch is reported)',
    'the elif / else pseudo-statements are not claimed to be in or out of the R661 chain, and their positions are not claimed',
    'typing is checked for comparisons, boolean operators (and, or, not, empty, not_empty), cardinality, literals, variable reads '
    '(the type of the value first assigned; relative to the observed type of that value when its own type is not claimed), attribute and '
    'parameter reads, instance and instance-set selections, self, and additionally invocations (declared return type), enumerators and '
    'constants; arithmetic results, array element accesses and `selected` are not claimed',
    'user data types: a read of an attribute or parameter declared with a user data type and the value of an invocation returning one '
    'carry exactly that type (not the core type underneath), a transient whose FIRST assignment is such a value is declared with it '
    '(R848), and so are its l-value and every later read of it (R820) -- also when it is later assigned a core-typed value; a variable '
    'first assigned a core-typed value keeps the core type when a value of a user data type is assigned later.  Arithmetic over such '
    'operands stays unclaimed (the translation gives it the type of the left operand); comparisons over them are boolean.  A copy of a '
    'variable whose type is not claimed is not claimed either (relative to the observed type)',
    'the block of the implicit variable self is not claimed (no statement declares it)',
    'positions are checked under three layouts: one line with single spaces; a line break plus indentation after every ";"; and '
    '"remarks": several lines with block comments and "//" comments in front of, behind and between the tokens of the statements, '
    'holding form feed, vertical tab, FS, GS, RS, NEL, U+2028, U+2029 and lone carriage returns -- a line ends in "\\n" only, and '
    'columns count from it (every program under the first, every program in one home under the second, every program of the '
    'families %s in another home under the third; thorough: every family, and a fourth with a line break in every gap)' % (REMARK_FAMILIES,),
    'layout "joined" (every program of the families %s in one home; thorough: every family): a statement starts on the line on which '
    'a block comment of several lines ends (the comment begun behind the previous statement, on a line of its own, several in a row, '
    'also in front of the first statement and between the tokens of a statement) or directly behind an `end if;` / `end for;` / '
    '`end while;` whose two words stand on two lines; line numbers count every "\\n" wherever it stands (inside comments and between '
    'the two words too) and columns count from the last one' % (JOINED_FAMILIES,),
    'components family: every program of the statement family in one home (rotating; thorough: every home) on the host variant '
    '"components": one system package with three components created in the order twin, own, twin; the four homes and everything '
    'the static description declares belong to the middle one; a twin declares classes with the same key letters and attribute '
    'names, associations with the same numbers and phrases, functions, an external entity with the same key letters and bridges '
    'and operations of the same names, every declared type replaced (integer -> string -> boolean -> real -> integer, Color -> '
    'Mode).  Enumerations, constants and core types are global.  A data type of the population must be the instance visible from '
    'the home (the instance-reference types of its own classes), not only carry the right name; which class, association or '
    'function instance a statement is related to is not compared beyond that',
    'refchain family: on the host variant "refchain" class A has the referential attribute B_A_Id that refers (R4) to B.A_Id -- an '
    'identifying attribute of B that is itself referential (R1, to A.Id) -- modeled with the O_RATTR / O_REF / O_RTIDA / O_OIDA '
    'instances BridgePoint keeps for every referential attribute; the declared type of a referential attribute is the type of its '
    'base attribute (R113; here unique_id), whatever the number of references in between',
    'handles family: on the host variant "handles" the classes additionally have attributes named length (A: real, B: Label, C: '
    'integer), Length (string) and sender (boolean) -- names the translation compares names with (`length`: what it takes for the '
    'length of an array when nothing else fits; `sender`: a variable it declares itself) --, attributes declared inst_ref<A>, '
    'inst_ref<B>, inst_ref<C>, an array attribute of inst_ref<A> and one of integers, and an attribute declared with the structured '
    'data type Rec {length: real, who: inst_ref<A>, count: integer}; the callables of the function, bridge and operation homes '
    'additionally have the parameters h: inst_ref<A>, hb: inst_ref<B>, hs: inst_ref<A>[2], ns: integer[5], rec: Rec.  '
    '"<handle>.<name>" is a read (or, on the left of an assignment, a write) of the attribute <name> of the class of the handle, '
    'whatever kind of expression yields the handle -- instance variable (created, selected, loop variable, transient assigned a '
    'handle), self, selected, parameter, element of an array parameter or array attribute, attribute or structure member declared '
    'with an instance-reference type, and chains of these (quick: two steps, thorough: three) -- and whatever the attribute is '
    'called: the value is an attribute value (V_AVL) of the declared type, and a transient first assigned from it takes that type.  '
    'Additionally (beyond the statement, like invocations): "<array>.length" on an array of core-typed elements (transient of one '
    'or two dimensions, also indexed once; parameter; attribute through every handle) is an array-length value (V_ALV) of type '
    'integer, and "<structure>.<member>" is a member value (V_MVL) of the declared type of the member.  Kept out (findings on the '
    'unchanged tree, reported): the length of an array of instance handles, and a transient array of instance handles declared '
    'by its first assignment.  Members of a structure held by a by-value parameter are read, not written',
    'keyword case: every program containing a keyword the parser hands on as written (not, empty, not_empty, cardinality, and, or, '
    'true, false, any, many, one, self) is additionally translated with ALL keywords in UPPER case (one home) and, for the statement / '
    'expression / names families, Capitalised (another home; thorough: every family, plus aLtErNaTiNg); the oracle is unchanged '
    '(OAL keywords are case-insensitive, so typing and positions are those of the lower-case program)',
    'history family: the translation under test is preceded, in the same process, by parses / prebuild attempts of action texts the '
    'parser rejects with ParseException (offending token on line 1, 2, 4, at the end of input, behind a multi-line comment), by a parse '
    'of a well-formed three-line text, or by two rejected attempts; a rejected prebuild attempt must leave no action instance behind '
    '(otherwise the run is not judged and the exploration reported as capped); the population of the well-formed action is then checked '
    'with the same oracle.  Histories of successful prebuilds in the same model are not explored (their instances would be part of the '
    'population); a second model in the same process is the second-model family',
]


def task_fn(ctx, task):
    if H.stopped():
        ctx.cap('stopped early after the first violations (VERIF_STOP_EARLY)')
        return
    H.c06_run(ctx, task)
    H.stop_if_violated(ctx)




def with_layouts(ctx, tasks):
    progs = {}
    for t in tasks:
        progs.setdefault(repr(t['stmts']), []).append(t)
    for n, (_, ts) in enumerate(sorted(progs.items())):
        for t in ts:
            t['layouts'] = ['default']
        pick = ts[(n + ctx.seed) % len(ts)]
        pick['layouts'] = ['default', 'lines'] + (['spread'] if ctx.thorough else [])
        # keyword case: programs in which a keyword is handed on to the translator as written (operators, select
        # cardinality, boolean literals, self as instance name), each style in another home than the line layout
        if H.spells_keywords_through(ts[0]['stmts']):
            styles = ['upper']
            if ctx.thorough or ts[0]['family'] in KWCASE_BOTH:
                styles.append('cap')
            if ctx.thorough:
                styles.append('mixed')
            for k, style in enumerate(styles, 1):
                ts[(n + ctx.seed + k) % len(ts)]['layouts'].append(style)
        # comments holding the characters some tools count as line ends: in the home the other styles leave free
        if ctx.thorough or ts[0]['family'] in REMARK_FAMILIES:
            ts[(n + ctx.seed + 3) % len(ts)]['layouts'].append('remarks')
        # statements that start on the line on which a multi-line block comment or a split `end\n if` ends
        if ctx.thorough or ts[0]['family'] in JOINED_FAMILIES:
            ts[(n + ctx.seed + 2) % len(ts)]['layouts'].append('joined')
    return tasks


def component_tasks(ctx, tasks):
    '''The components family: the programs of the statement family on the host variant with twin components, each in
    one home (homes rotate with the programs; thorough: in every home), alternately through prebuild_action and
    prebuild_model, every fourth one in the multi-line layout.'''
    progs = {}
    for t in tasks:
        if t['family'] == 'statements':
            progs.setdefault(repr(t['stmts']), []).append(t)
    out = []
    for n, (_, ts) in enumerate(sorted(progs.items())):
        for t in (ts if ctx.thorough else [ts[(n + ctx.seed) % len(ts)]]):
            out.append(dict(family='components', stmts=t['stmts'], home=t['home'], entry='model' if (n + ctx.seed) % 2 else 'action',
                            host='components', layouts=['lines' if n % 4 == 3 else 'default']))
    return out


def refchain_programs():
    '''Reads of A.B_A_Id -- a referential attribute that refers to B.A_Id, itself referential (host variant "refchain") -- through
    a typed handle, self, selected, a loop variable and a handle assigned from another one; in assignments (the variable takes the
    declared type), comparisons, where clauses, conditions and return values; next to reads of the first-level referential
    attribute B.A_Id and of base attributes.'''
    V, F, BIN, ASSIGN, SEL, SELF = H.V, H.F, H.BIN, H.ASSIGN, H.SEL, H.SELF
    second = lambda h: F(h, 'B_A_Id')
    P = []
    add = lambda *stmts: P.append(list(stmts))
    add(ASSIGN('k', second('a')))
    add(ASSIGN('k', second('a')), ASSIGN('m', V('k')), ASSIGN('k', F('b', 'A_Id')))
    add(ASSIGN('k', F('b', 'A_Id')), ASSIGN('k', second('a')), ASSIGN('m', F('a', 'Id')))
    add(ASSIGN('k', F('a', 'Id')), ASSIGN('m', F('b', 'A_Id')), ASSIGN('n', F('a', 'Num')))       # the other attribute kinds on this host
    add(ASSIGN('q', BIN('==', second('a'), F('b', 'A_Id'))))
    add(ASSIGN('q', BIN('!=', second('a'), F('a', 'Id'))), ASSIGN('u', BIN('==', second('a2'), second('a'))))
    add(('selfrom', 'any', 'n', 'A', BIN('==', second(SEL), F('b', 'A_Id')), True))
    add(('selfrom', 'many', 'n', 'A', BIN('==', second(SEL), F(SEL, 'Id')), True))
    add(('selrel', 'many', 'n', V('b'), [('A', 'R1', None)], BIN('!=', second(SEL), F('b', 'A_Id'))))
    add(('selrel', 'one', 'n', V('a'), [('A', 'R2', H.T('next'))], BIN('==', second(SEL), second('a'))))
    add(ASSIGN('k', second(SELF)))
    add(('return', BIN('!=', second(SELF), second('a'))))
    add(('selfrom', 'any', 'n', 'A', BIN('==', second(SEL), second(SELF)), True), ASSIGN('k', second('n')))
    add(('if', BIN('==', second('a'), second('a2')), [ASSIGN('k', second('a2'))], [(BIN('!=', second('a'), F('b', 'A_Id')), [ASSIGN('k', second('a'))])],
         [ASSIGN('k', F('b', 'A_Id'))], [False, False]))
    add(('while', BIN('!=', second('a'), second('a')), [ASSIGN('k', second('a')), ('break',)], False))
    add(('foreach', 'x', 'aset', [ASSIGN('k', second('x'))], False))
    add(ASSIGN('x', V('a')), ASSIGN('k', second('x')))
    add(('create', 'n', 'A'), ASSIGN('k', second('n')), ('return', BIN('==', V('k'), second('n'))))
    return P


def refchain_tasks(ctx, tasks):
    '''The refchain family: the programs of refchain_programs() in every home, and every k-th program of the statement family
    (homes rotate), on the host variant "refchain" -- alternately through prebuild_action and prebuild_model.'''
    out = []
    for n, core_stmts in enumerate(refchain_programs()):
        for k, home in enumerate(H.HOMES):
            stmts = H.tolist(H.home_params(core_stmts, home))
            if H.complete(stmts, home, variant='refchain') is None:
                continue
            out.append(dict(family='refchain', stmts=stmts, home=home, entry='model' if (n + k + ctx.seed) % 2 else 'action',
                            host='refchain', layouts=['lines' if (n + k) % 3 == 2 else 'default'], second_level=True))
    pool = {}
    for t in tasks:
        if t['family'] == 'statements' and 'host' not in t:
            pool.setdefault(repr(t['stmts']), []).append(t)
    progs = sorted(pool.items())
    want = 60 if ctx.quick else 400
    for n, (_, ts) in enumerate(progs[(ctx.seed * 5) % 7:: max(1, len(progs) // want)]):
        t = ts[(n + ctx.seed) % len(ts)]
        out.append(dict(family='refchain', stmts=t['stmts'], home=t['home'], entry='action' if (n + ctx.seed) % 2 else 'model',
                        host='refchain', layouts=['default']))
    return out


def handle_expressions(tier):
    """class -> every expression of the host variant "handles" that yields an instance of it, one per kind of handle the grammar
    allows in front of ".<name>" (selected is added by the where-clause programs, loop variables / migrated transients / select
    results by the statement programs); thorough: chains one step longer."""
    V, F, I = H.V, H.F, H.I
    P, PS, REC = ('param', 'h'), ('index', ('param', 'hs'), I(0)), ('param', 'rec')
    A = [V('a'), H.SELF, P, PS,                                                      # variable, self, parameter, element of an array parameter
         F('a', 'Peer'), F(H.SELF, 'Peer'), F(P, 'Peer'), F('b', 'Owner'), F(('param', 'hb'), 'Owner'),      # attribute declared inst_ref<A>
         ('index', F('a', 'Peers'), I(1)), ('index', F(P, 'Peers'), V('i')),        # element of an array attribute
         F(REC, 'who'), F(F('a', 'Info'), 'who'), F(F(PS, 'Info'), 'who'),           # member of a structure (parameter, attribute)
         F(F('a', 'Peer'), 'Peer'), F(PS, 'Peer'), F(F('a', 'Mate'), 'Owner'),      # attribute of an attribute / of an element / of a member
         F(F(REC, 'who'), 'Peer'), ('index', F(F('a', 'Peer'), 'Peers'), I(0))]
    B = [V('b'), ('param', 'hb'), F('a', 'Mate'), F(P, 'Mate'), F(PS, 'Mate'), F(F('a', 'Peer'), 'Mate'), F(F(REC, 'who'), 'Mate')]
    C = [V('c'), F('a', 'Via'), F(P, 'Via'), F(F(F('a', 'Info'), 'who'), 'Via')]
    if tier != 'quick':
        A += [F(h, 'Peer') for h in A[4:14]] + [('index', F(h, 'Peers'), I(2)) for h in A[3:14]] + [F(F(h, 'Info'), 'who') for h in A[1:12]]
        B += [F(h, 'Mate') for h in A[4:19]]
        C += [F(h, 'Via') for h in A[3:19]]
    return {'A': A, 'B': B, 'C': C}


# kinds of expressions in front of ".<name>" (prebuildhost.handle_kind) through which the handles family must have read or written
# an attribute with a name the translation knows, and kinds of arrays whose length it must have read
HANDLE_KINDS = ['variable', 'self', 'selected', 'parameter', 'element-of-parameter', 'attribute-of-variable', 'attribute-of-self',
                'attribute-of-selected', 'attribute-of-parameter', 'element-of-attribute-of-variable', 'element-of-attribute-of-parameter',
                'member-of-parameter', 'member-of-variable', 'member-of-attribute-of-variable', 'attribute-of-attribute-of-variable',
                'attribute-of-element-of-parameter', 'attribute-of-member-of-parameter']
ARRAY_KINDS = ['variable', 'element-of-variable', 'parameter', 'attribute-of-variable', 'attribute-of-self', 'attribute-of-selected',
               'attribute-of-parameter', 'attribute-of-element-of-parameter', 'attribute-of-member-of-parameter']
MEMBER_KINDS = ['parameter', 'variable', 'attribute-of-variable', 'attribute-of-parameter', 'attribute-of-self']
HANDLES_NAMES = {'A': [('length', ('real', '1.5')), ('Length', ('str', 's')), ('sender', ('bool', 'true')), ('Num', ('int', '1')), ('When', ('int', '1'))],
                 'B': [('length', ('str', 's')), ('Num', ('int', '1'))], 'C': [('length', ('int', '1'))]}


def handles_programs(tier):
    """The handles family: attribute reads and writes "<handle>.<name>" for every handle expression of handle_expressions() and
    every attribute name of the menu -- the names the translation knows from elsewhere (length, Length, sender) next to ordinary
    ones, each declared with another type per class -- as the first value of a transient (which takes the declared type), copied,
    returned, compared, in a condition, in a where clause next to the same attribute of selected, written, and written from a read
    through the next handle (quick: every form for `length`, three forms for the other names); the same through selected, loop
    variables, select results and transients assigned a handle; the members of a structure (one of them named length) held by a
    parameter, an attribute and a transient; and the genuine <array>.length of transient, parameter and attribute arrays (also
    next to <handle>.length in one expression)."""
    V, F, I, BIN, ASSIGN, SEL = H.V, H.F, H.I, H.BIN, H.ASSIGN, H.SEL
    names = dict((k, list(v)) for k, v in HANDLES_NAMES.items())
    if tier != 'quick':
        names['A'] += [('Rate', H.R15), ('Tag', H.STR)]
    P = []
    add = lambda *stmts: P.append(list(stmts))
    handles = handle_expressions(tier)

    def forms(r, K, r2, where_of, full, writable=True):
        """The program forms around the read r of a value whose type has the literal K; r2: the same name through another handle."""
        add(ASSIGN('x', r), ASSIGN('y', V('x')), ('return', V('y')))
        add(('return', r))
        if writable:
            add(ASSIGN(r, K), ASSIGN(r, r2), ASSIGN('x', r))
        if not full:
            return
        add(ASSIGN('x', r))
        add(ASSIGN('x', K), ASSIGN('x', r), ASSIGN('y', BIN('==', r, V('x'))))
        add(('if', BIN('==', r, K), [ASSIGN('x', r)], [(BIN('!=', r2, r), [ASSIGN('x', r2)])], [ASSIGN('x', K)], [False, False]), ASSIGN('x', H.TRUE))
        if where_of:
            add(('selfrom', 'many', 'n', where_of[0], BIN('==', F(SEL, where_of[1]), r), True))

    for kl in sorted(handles):
        hs = handles[kl]
        for n, h in enumerate(hs):
            other = hs[(n + 1) % len(hs)]
            for name, K in names[kl]:
                forms(F(h, name), K, F(other, name), (kl, name), tier != 'quick' or name == 'length')
    # selected as the handle, alone and in front of attributes and members that hold handles
    for w in (BIN('>', F(SEL, 'length'), H.R15), BIN('==', F(SEL, 'Length'), H.STR), F(SEL, 'sender'),
              BIN('<', F(F(SEL, 'Peer'), 'length'), F(SEL, 'length')), BIN('!=', F(F(SEL, 'Mate'), 'length'), F(SEL, 'Length')),
              BIN('>', F(('index', F(SEL, 'Peers'), I(0)), 'length'), H.R15), BIN('==', F(F(SEL, 'Via'), 'length'), F(F(SEL, 'Nums'), 'length')),
              BIN('and', F(F(SEL, 'Peer'), 'sender'), BIN('<', F(F(SEL, 'Nums'), 'length'), F('v', 'length'))),
              BIN('>=', F(F(SEL, 'Info'), 'length'), F(F(F(SEL, 'Info'), 'who'), 'length'))):
        add(('selfrom', 'any', 'n', 'A', w, True))
        add(('selfrom', 'many', 'n', 'A', w, False), ('foreach', 'k', 'n', [ASSIGN('x', F('k', 'length'))], False))
        add(('selrel', 'many', 'n', V('bset'), [('A', 'R1', None)], w))
        add(('selrel', 'one', 'n', V('a'), [('A', 'R2', H.T('next'))], w), ASSIGN('x', F('n', 'length')))
    add(('selfrom', 'any', 'n', 'B', BIN('==', F(SEL, 'length'), F(F(SEL, 'Owner'), 'Length')), True), ASSIGN('x', F('n', 'length')))
    add(('selrel', 'many', 'n', V('a'), [('B', 'R1', None)], BIN('!=', F(SEL, 'length'), H.STR)))
    add(('selrel', 'any', 'n', V('a'), [('C', 'R3', None)], BIN('>', F(SEL, 'length'), I(0))), ASSIGN('x', F('n', 'length')))
    # handles held by variables of every origin: created, selected, loop variable, transient assigned a handle of every kind
    for name in ('length', 'Length', 'sender'):
        add(('create', 'n', 'A'), ASSIGN('x', F('n', name)))
        add(('selfrom', 'any', 'n', 'A', None, True), ASSIGN('x', F('n', name)), ASSIGN(F('n', name), V('x')))
        add(('foreach', 'k', 'aset', [ASSIGN('x', F('k', name)), ASSIGN(F('k', name), V('x'))], False))
        for h in handles['A'][1:]:
            add(ASSIGN('m', h), ASSIGN('x', F('m', name)), ASSIGN(F('m', name), F(h, name)))
    # structures: the members length (real), count (integer) of a Rec held by a parameter, an attribute (through every handle of
    # an A) and a transient
    recs = [('param', 'rec')] + [F(h, 'Info') for h in handles['A']]
    for n, rec in enumerate(recs):
        rec2 = recs[(n + 1) % len(recs)]
        for name, K in (('length', H.R15), ('count', I(1))):
            forms(F(rec, name), K, F(rec2, name), None, tier != 'quick' or name == 'length', writable=rec[0] != 'param' and 'param' not in repr(rec))
        add(ASSIGN('rc', rec), ASSIGN('x', F('rc', 'length')), ASSIGN(F('rc', 'length'), F(F('rc', 'who'), 'length')), ASSIGN('y', F('rc', 'count')))
    # genuine array lengths -- the integer the translation represents as V_ALV -- alone and next to <handle>.length
    arrays = [V('v'), V('w'), ('index', V('w'), I(0)), ('param', 'ns')] + [F(h, 'Nums') for h in handles['A']]
    for n, arr in enumerate(arrays):
        ln = F(arr, 'length')
        h = handles['A'][n % len(handles['A'])]
        add(ASSIGN('x', ln), ASSIGN('y', V('x')), ('return', BIN('+', V('y'), ln)))
        add(('return', ln))
        add(ASSIGN('q', BIN('<', ln, F(h, 'length'))), ASSIGN('x', F(h, 'length')), ASSIGN('y', ln))
        add(ASSIGN('x', F(h, 'length')), ASSIGN('y', ln), ASSIGN('q', BIN('>=', V('x'), V('y'))))
        add(('while', BIN('<', V('i'), ln), [ASSIGN('i', BIN('+', V('i'), I(1))), ASSIGN(F(h, 'Num'), ln)], False))
        add(('selfrom', 'many', 'n', 'A', BIN('==', F(SEL, 'Num'), ln), True))
        add(ASSIGN('x', ('index', arr, BIN('-', ln, I(1)))) if arr[0] != 'index' and arr != V('w') else ASSIGN('x', BIN('*', ln, ln)))
    return P


def handles_tasks(ctx):
    """Every program of handles_programs() on the host variant "handles", in every home in which it is well-formed (self: operation
    and attribute; parameters: function, bridge and operation; quick: a program reading neither in two of the four homes,
    rotating), alternately through prebuild_action and prebuild_model, every third one in the multi-line layout."""
    out, seen = [], set()
    for n, core_stmts in enumerate(handles_programs(ctx.tier)):
        stmts = H.tolist(core_stmts)
        homes = [(k, home) for k, home in enumerate(H.HOMES) if H.complete(stmts, home, variant='handles') is not None]
        if ctx.quick and len(homes) == len(H.HOMES):
            homes = [homes[(n + ctx.seed) % 4], homes[(n + ctx.seed + 2) % 4]]
        for k, home in homes:
            if (repr(stmts), home) in seen:
                continue
            seen.add((repr(stmts), home))
            out.append(dict(family='handles', stmts=stmts, home=home, entry='model' if (len(out) + ctx.seed) % 2 else 'action',
                            host='handles', layouts=['lines' if (len(out) + ctx.seed) % 3 == 2 else 'default']))
    return out


def history_tasks(ctx, tasks):
    '''The history family: every history of prebuildhost.histories() before every k-th program of the statement family
    (homes rotate with the programs), alternately in the one-line and in the multi-line layout.'''
    pool = [t for t in tasks if t['family'] == 'statements']
    want = 24 if ctx.quick else 120
    picked = pool[(ctx.seed * 7) % 11:: max(1, len(pool) // want)][:want]
    out = []
    for n, t in enumerate(picked):
        for k, h in enumerate(H.histories()):
            out.append(dict(family='history', stmts=t['stmts'], home=t['home'], entry=t['entry'], history=h,
                            layouts=['lines' if (n + k) % 2 else 'default']))
    return out


def run(ctx):
    from mc import core
    tasks, bounds = H.all_tasks(ctx.tier, ctx.seed)
    tasks = with_layouts(ctx, tasks)
    tasks = tasks + history_tasks(ctx, tasks) + component_tasks(ctx, tasks) + refchain_tasks(ctx, tasks) + handles_tasks(ctx)
    ctx.notes['refchain_second_level'] = sum(1 for t in tasks if t.get('second_level'))
    k = (ctx.seed * 97) % max(1, len(tasks))
    tasks = tasks[k:] + tasks[:k]
    ctx.notes['bounds'] = bounds
    n = core.NCPU * 4
    order = [t for i in range(n) for t in tasks[i::n]]
    H.arm_early_stop()
    ctx.pmap(task_fn, order, chunk=max(1, len(order) // (core.NCPU * 8)))
    ctx.pmap(second_model_task, second_model_cases(ctx.tier))
    ctx.require(ctx.n('second_model_links_checked') >= 40, 'second-model family did not run (%d links checked)' % ctx.n('second_model_links_checked'))
    C05.guards(ctx, tasks)
    ctx.require(ctx.n('layout:lines') >= ctx.nd('programs'), 'the multi-line layout was not applied to every program')
    ctx.require(ctx.n('layout:upper') >= 800 and ctx.n('layout:cap') >= 600,
                'too few programs in upper-case / capitalised keywords (%d / %d)' % (ctx.n('layout:upper'), ctx.n('layout:cap')))
    ctx.require(ctx.n('layout:remarks') >= 1200 and ctx.n('remark_characters') >= 15 * ctx.n('layout:remarks'),
                'too few programs laid out with comments holding odd characters (%d programs, %d characters)' %
                (ctx.n('layout:remarks'), ctx.n('remark_characters')))
    ctx.require(ctx.n('layout:joined') >= 1200, 'too few programs laid out with statements joined to the end of multi-line comments / '
                'split end keywords (%d)' % ctx.n('layout:joined'))
    ctx.require(ctx.n('family:components') >= 500 and ctx.n('namesake_checks') >= 2 * ctx.n('family:components'),
                'components family: %d programs, %d data types with a namesake in another component compared' %
                (ctx.n('family:components'), ctx.n('namesake_checks')))
    ctx.require(ctx.n('family:refchain') >= 100 and ctx.notes['refchain_second_level'] >= 50,
                'refchain family: %d programs, %d of them read the second-level referential attribute'
                % (ctx.n('family:refchain'), ctx.notes['refchain_second_level']))
    special = dict((k.split(':', 1)[1], v) for k, v in ctx.counts.items() if k.startswith('special_attribute:'))
    lengths = dict((k.split(':', 1)[1], v) for k, v in ctx.counts.items() if k.startswith('array_length:'))
    ctx.notes['handles'] = dict(special=special, lengths=lengths)
    missing = [k for k in HANDLE_KINDS if special.get(k, 0) < 10]
    ctx.require(ctx.n('family:handles') >= 1500 and not missing,
                'handles family: %d programs; attributes named %s were read or written fewer than 10 times through: %s'
                % (ctx.n('family:handles'), H.SPECIAL_ATTRIBUTE_NAMES, missing))
    missing = [k for k in ARRAY_KINDS if lengths.get(k, 0) < 10]
    ctx.require(not missing, 'handles family: <array>.length was read fewer than 10 times on: %s' % missing)
    members = dict((k.split(':', 1)[1], v) for k, v in ctx.counts.items() if k.startswith('special_member:'))
    ctx.notes['handles']['members'] = members
    missing = [k for k in MEMBER_KINDS if members.get(k, 0) < 10]
    ctx.require(not missing, 'handles family: the member `length` of a structure was read fewer than 10 times through: %s' % missing)
    ctx.require(ctx.n('usertype_checks') >= 5000, 'too few values / variables expected to carry a user data type were compared (%d)'
                % ctx.n('usertype_checks'))
    nh = len(H.histories())
    ctx.require(ctx.n('history_runs') >= 20 * nh and ctx.n('history_not_judged') == 0 or ctx.caps_hit,
                'history family: %d runs judged, %d not judged (%d histories)' % (ctx.n('history_runs'), ctx.n('history_not_judged'), nh))
    ctx.require(ctx.n('values') > 10 * ctx.nd('programs') and ctx.n('statements') > 3 * ctx.nd('programs'),
                'too few value / statement instances were walked')
    from mc.refs import oalast
    for t in tasks[:: max(1, len(tasks) // 4)][:4]:
        full, printed, _ = H.complete(t['stmts'], t['home'], variant=t.get('host'))
        ctx.sample(dict(family=t['family'], home=t['home'], text=oalast.assemble(printed, H.layout_of(printed, 'lines'))[0]))


# ---------------------------------------------------------------------------
# two models prebuilt one after the other in ONE process: the second model's values and variables must be typed by
# data types (enumerators, constants) of their own model
# ---------------------------------------------------------------------------

def _second_model(sub, host, case):
    from xtuml import navigate_one as one
    from mc.refs import oalast
    text1 = oalast.assemble(oalast.print_program(case['first']))[0]
    text2 = oalast.assemble(oalast.print_program(case['second']))[0]
    H.translate(host, 'function', text1)
    m2 = H.loader().build_metamodel()
    host2 = H.build_host(m2)
    H.translate(host2, 'function', text2)
    own = dict((k, set(map(id, m2.select_many(k)))) for k in ('S_DT', 'S_ENUM', 'CNST_SYC', 'O_OBJ', 'O_ATTR'))
    checks = [('V_VAL', 'S_DT', 820), ('V_VAR', 'S_DT', 848), ('V_LEN', 'S_ENUM', 824), ('V_SCV', 'CNST_SYC', 850),
              ('V_INT', 'O_OBJ', 818), ('V_INS', 'O_OBJ', 819), ('V_AVL', 'O_ATTR', 806)]
    n = 0
    for kind, to, rel in checks:
        for inst in m2.select_many(kind):
            other = one(inst).nav(to, rel)()
            n += 1
            if other is not None and id(other) not in own[to]:
                sub.violation('c06:second-model:foreign-%s' % to, dict(kind='second-model', first=case['first'], second=case['second']),
                              'after prebuilding another model in the same process, a %s of the second model is related (R%d) to a %s '
                              'that is not part of that model (%r after %r)' % (kind, rel, to, text2, text1))
                return n
    sub.count('second_model_links_checked', n)
    sub.count('traces')
    return n


def second_model_task(ctx, case):
    ctx.count('second_model_cases')
    res = H.isolated(ctx, _second_model, case)
    if isinstance(res, tuple) and res and res[0] in ('killed', 'died', 'timeout'):
        ctx.violation('c06:second-model:%s' % res[0], dict(kind='second-model', first=case['first'], second=case['second']),
                      'prebuilding a second model in the same process: %s' % (res,))


def second_model_cases(tier):
    corpus = H.prebuild_corpus(tier='quick')
    picked = corpus[:: max(1, len(corpus) // (12 if tier == 'quick' else 60))]
    out = []
    # The model prebuilt first always holds a program touching every kind of type, enumerator, constant and class the
    # host offers, followed by one of the picked programs: whatever the second program uses has been used before in the
    # other model (the pairs used to overlap by accident only, and the detection of C06-4 was lost when the corpus grew)
    rich = [H.ASSIGN('q1', H.I(1)), H.ASSIGN('q2', H.STR), H.ASSIGN('q3', H.TRUE), H.ASSIGN('q4', ('real', '1.5')),
            H.ASSIGN('q5', H.RED), H.ASSIGN('q6', H.TEN), H.ASSIGN('q7', ('enum', 'Mode', 'Off')), H.ASSIGN('q8', ('enum', 'L', 'TEN')),
            ('selfrom', 'any', 'q9', 'A', None, True), ('selfrom', 'many', 'q10', 'A', None, True),
            ('selfrom', 'any', 'q11', 'B', None, True), H.ASSIGN('q12', H.F('q9', 'Num'))]
    for i, (name, stmts) in enumerate(picked):
        out.append(dict(first=rich + list(picked[(i + 1) % len(picked)][1]), second=stmts))
        out.append(dict(first=picked[(i + 1) % len(picked)][1], second=rich + list(stmts)))
    return out


def replay(ctx, case):
    if case.get('kind') == 'second-model':
        second_model_task(ctx, case)
        return
    task = dict(family=case['family'], stmts=case['stmts'], home=case['home'], entry=case.get('entry', 'action'),
                layout=case.get('layout', 'default'), history=case.get('history'), host=case.get('host'))
    H.c06_run(ctx, task)


def coverage(ctx):
    return dict(
        states=ctx.nd('states'),
        transitions=ctx.n('translations'),
        traces_validated_against_impl=ctx.n('traces'),
        evaluations=ctx.n('checks'),
        distinct_nontrivial=ctx.nd('nontrivial'),
        distinct_programs=ctx.nd('programs'),
        statement_instances_walked=ctx.n('statements'), value_instances_walked=ctx.n('values'),
        per_home=dict((h, ctx.nd('home:' + h)) for h in H.HOMES),
        per_family=dict((k.split(':')[1], v) for k, v in ctx.counts.items() if k.startswith('family:')),
        per_layout=dict((k.split(':')[1], v) for k, v in ctx.counts.items() if k.startswith('layout:')),
        entry_points=dict(prebuild_action=ctx.n('entry:action'), prebuild_model=ctx.n('entry:model')),
        history_family=dict(histories=H.histories(), rejected_texts=H.REJECTED_TEXTS, accepted_texts=H.ACCEPTED_TEXTS,
                            runs_judged=ctx.n('history_runs'), runs_not_judged=ctx.n('history_not_judged'),
                            steps=ctx.n('history_steps')),
        components_family=dict(host_variant='components: three components (twin, own, twin) below one system package',
                               twin_types=H.TWIN_RETYPE, programs=ctx.n('family:components'),
                               data_types_with_a_namesake_compared=ctx.n('namesake_checks')),
        refchain_family=dict(host_variant='refchain: the default host plus A.B_A_Id, referring across R4 to B.A_Id (second identifier of '
                                          'B), which refers across R1 to A.Id; with the O_REF / O_RTIDA / O_OIDA instances of both',
                             programs=ctx.n('family:refchain'), reading_the_second_level_attribute=ctx.notes.get('refchain_second_level'),
                             read_through=['typed handle', 'self', 'selected', 'loop variable', 'handle assigned from a handle', 'created instance']),
        handles_family=dict(host_variant='handles: the default host plus the attributes %r, the parameters %r (dimensions %r) and the '
                                         'structures %r' % (H.VARIANT_ATTRS['handles'], H.VARIANT_PARAMS['handles']['function'],
                                                            sorted(H.VARIANT_DIMS['handles'].items()), H.VARIANT_STRUCTS['handles']),
                            programs=ctx.n('family:handles'), attribute_names=dict((k, [n for n, _ in v]) for k, v in HANDLES_NAMES.items()),
                            handle_expressions=dict((k, len(v)) for k, v in handle_expressions(ctx.tier).items()),
                            reads_and_writes_of_special_names_by_handle_kind=(ctx.notes.get('handles') or {}).get('special'),
                            array_length_reads_by_array_kind=(ctx.notes.get('handles') or {}).get('lengths'),
                            reads_of_the_member_length_by_structure_kind=(ctx.notes.get('handles') or {}).get('members')),
        user_data_types=dict(types=dict(H.USER_TYPES), values_and_variables_expected_to_carry_one=ctx.n('usertype_checks')),
        remarks_layout=dict(families_quick=REMARK_FAMILIES, programs=ctx.n('layout:remarks'),
                            characters=[hex(ord(c)) for c in H.ODD_CHARACTERS + '\r'], characters_placed=ctx.n('remark_characters')),
        joined_layout=dict(families_quick=JOINED_FAMILIES, programs=ctx.n('layout:joined'), gaps_behind_a_statement=H.JOINED_GAPS,
                           gaps_inside_a_statement=H.JOINED_INNER, between_end_and_its_second_word=H.JOINED_END,
                           lead='/* head\n of the action */ '),
        keyword_case=dict(styles_quick=dict(upper='every program spelling a keyword through to the translator',
                                            cap='those of the families %s' % (KWCASE_BOTH,)),
                          styles_thorough='upper, cap, mixed for every such program',
                          keywords=sorted(H.SPELLED_THROUGH)),
        features_exercised=ctx.nd('features'),
        max_statements_per_program=C05.sizes(ctx, 'statements'), max_block_depth=C05.sizes(ctx, 'depth'),
        rule='states = distinct (program, home) pairs; transitions = prebuild runs (one per state and layout, each on a fresh host); '
             'evaluations = individual comparisons made on the populations (consistency, subtype counts, chain references, positions, '
             'variable blocks, data types); a trace is validated when a state passes every comparison under all its layouts; non-trivial = '
             'programs with at least two statements or a nested block',
        bounds=ctx.notes.get('bounds'),
        exhaustive=not ctx.caps_hit,
    )
