'''
C04 -- interpreted OAL computes what the action language defines.

E1 search over statement sequences: a state is a program prefix; every
statement of a typed menu (computed from the reference environment) extends
it; each candidate program -- followed by generated observation statements that
copy every variable in scope into a PROBE instance -- is run through the public
entry point bridgepoint.interpret.run_function on a fresh ooaofooa.Domain and
through the reference evaluator (mc.refs.oaleval) on a fresh relational
reference model; return value and final population must agree.

Two more setups carry a reflexive association class (R4: A -L- A, phrases
'one' / 'other'); below them the menu is the one of menu_r4 (relate / unrelate
using a link instance in both phrasings, selections from both participants and
from the link instance).

Family anyrel: `select any|one v related by <chain> where (<clause>)` over
populations with fan-out along every relationship, for every chain of
ANYREL_CHAINS and every clause of the where menu (satisfied by the first, a
later, several or none of the related instances): v must be empty exactly when
no related instance satisfies the clause and otherwise be one of those that do.

Family boolexpr: boolean expressions over three (thorough: also four) atoms --
every tree shape, every assignment of and / or (and == / !=), every placement
of not -- printed with the minimal parentheses of the language's precedence
(or < and < comparison < not), evaluated under every valuation of the atoms as
a returned value, in where clauses (from instances any / many, along a chain),
in if / elif / while conditions and as an assigned value.

Family rebind: a variable bound in an enclosing block to an empty instance
handle (selection matching nothing, navigation without partner, copy of an
empty handle, selection over no population), an empty set, 0, false, "", 0.0 --
or to a non-empty / non-zero value -- is bound again inside a nested block
(if / elif / else / while / for each bodies, two levels, conditions testing the
variable itself) by create, select, navigation, assignment or as a loop
variable, read inside the block and after it; also with the enclosing block
itself nested.

Family loopctl: control stop / return (value, bare) / break / continue executed
inside loop bodies -- in an if / elif / else of the body, in the inner or the outer
of two nested loops (while, for each, mixed), in a loop inside an if / else --
with observable statements behind it in the body, behind the inner loop and
behind the loops.

Family strlit: string literals holding backslashes (also as the last character, before n / t / x / u / N / digits /
another backslash), a tab, percent signs, braces and characters outside ASCII (Latin-1, BMP, astral) as returned
value, variable, operand of +, written attribute value, in where clauses (from instances any / many, along a chain)
and in if / elif / while conditions; every ordered pair of the literals compared with == and !=.  The value of a
literal is the text between its quotes.

Link instances related to one participant only (one half of a link made or
removed without `using`, or a participant deleted) are states of the sequence
search, over the reflexive association class R4 and over R3; the probes read
every variable that does not designate a deleted instance.
'''
import itertools
import json

from mc import core, explorer
from mc.refs import relmodel, oalast as A, oaleval as E

NEEDS_BRIDGEPOINT = True
BUDGET_S = {'quick': 3600, 'thorough': 14400}
ASSUMPTIONS = [
    'programs the reference classifies as ill-typed, erroneous (rejected relate, empty handle), diverging within fuel or '
    'dialect-dependent (inexact integer division, negative modulo) are not transitions',
    '"select any" / "select one" deliver the first candidate in model order (as C09 states for the query layer) in the statement '
    'sequence search; in the anyrel family (select any/one along chains with a where clause) the choice among the instances '
    'satisfying the clause is left open: only emptiness and membership in the set selected by "select many" are compared',
    'below the two setups with the reflexive association class the menu is restricted to the statements over that association '
    '(menu_r4), and only population-changing statements lead to states that are expanded further',
    'variables are observed through generated OAL statements copying them into a PROBE instance; a handle whose instance has been '
    'deleted is not read, of a set holding a deleted instance only the cardinality is',
    'a link instance of an association class may be related to one participant only (relate / unrelate without `using`, deletion '
    'of a participant): navigation across the association class that does not name the link class then reaches nothing through it',
    'loopctl family: control stop and return end the whole action from any depth of loops and conditionals (no statement behind '
    'them is executed, control stop delivers no value); break / continue act on the innermost enclosing loop',
    'eqchain family: where clauses of select many / any from instances and of select many related by, made of two (and / or) '
    'or three (and) equality terms selected.<attr> == <value> over the attributes N (values 0, 1 as literals and as variables), '
    'K (1, 2) and Name ("x", ""), every ordered pair / triple incl. one attribute constrained twice with equal and with '
    'different values, literal terms also with the operands the other way round, on the eight-instance population',
    'boolexpr family: precedence and associativity of the reference are those of the printer (mc.refs.oalast.LEVEL: or below and '
    'below the comparisons below the arithmetic operators below the unary operators; and / or group to the left, comparisons do not '
    'chain); the reference evaluates the tree, the interpreter the text printed with the fewest parentheses that keep the tree; '
    'and / or are evaluated on both operands (operands have no side effects in this family); == / != between booleans are part of it',
    'strlit family: OAL has no escape sequences -- the value of a string literal is exactly the text between its quotes (any '
    'character but a quote and a line break), two literals are equal exactly when their texts are',
    'rebind family: a variable lives in the block of its first binding whatever value it holds (also an empty handle, an empty '
    'set, 0, false, ""); a later binding in a nested block -- assignment, create, select, for-each loop variable -- updates that '
    'variable, and the value is what reads inside and after the nested block see',
]

Assoc = relmodel.Assoc
NI = 12        # integer observation slots of PROBE
SCHEMA = relmodel.Schema('c04', [
    ('A', [('Id', 'unique_id'), ('K', 'integer'), ('N', 'integer'), ('Name', 'string'), ('Flag', 'boolean'),
           ('X', 'real'), ('Next_Id', 'unique_id')]),
    ('B', [('Id', 'unique_id'), ('K', 'integer'), ('N', 'integer'), ('A_Id', 'unique_id')]),
    ('C', [('Id', 'unique_id'), ('K', 'integer'), ('A_Id', 'unique_id'), ('B_Id', 'unique_id')]),
    # link class of the reflexive association class R4 on A (phrases 'one' / 'other'; the shape ooaofooa.mk_linked_association makes)
    ('L', [('Id', 'unique_id'), ('K', 'integer'), ('One_Id', 'unique_id'), ('Other_Id', 'unique_id')]),
    ('PROBE', [('Id', 'unique_id')] + [('i%d' % k, 'integer') for k in range(NI)] + [('r%d' % k, 'real') for k in range(2)] +
     [('s%d' % k, 'string') for k in range(2)] + [('f%d' % k, 'boolean') for k in range(2)]),
], [
    Assoc(1, 'B', ['A_Id'], True, True, '', 'A', ['Id'], False, True, ''),
    Assoc(2, 'A', ['Next_Id'], False, True, 'prev', 'A', ['Id'], False, True, 'next'),
    Assoc(3, 'C', ['A_Id'], True, True, '', 'A', ['Id'], False, False, ''),
    Assoc(3, 'C', ['B_Id'], True, True, '', 'B', ['Id'], False, False, ''),
    Assoc(4, 'L', ['One_Id'], True, True, 'one', 'A', ['Id'], False, False, 'other'),
    Assoc(4, 'L', ['Other_Id'], True, True, 'other', 'A', ['Id'], False, False, 'one'),
], [('A', 'I1', ['Id']), ('B', 'I1', ['Id']), ('C', 'I1', ['Id']), ('L', 'I1', ['Id'])])

V = lambda n: ('var', n)
I = lambda n: ('int', str(n))
S = lambda s: ('str', s)
T = lambda s: ('t', s)
TRUE, FALSE = ('bool', 'true'), ('bool', 'false')
F = lambda h, n: ('field', V(h), n)
B = lambda op, l, r: ('bin', op, l, r)
U = lambda op, x: ('un', op, x)
ASG = lambda lhs, rhs: ('assign', lhs, rhs, False)
IF = lambda c, blk, elifs=(), els=None: ('if', c, list(blk), [(ec, list(eb)) for ec, eb in elifs], els, [True] + [False] * len(elifs))


def probe_statements(env, ref=None):
    '''OAL statements copying every variable of the outermost scope into a PROBE instance.  A handle whose instance has
    been deleted is not read (reading it is outside the domain); of a set holding a deleted instance only the cardinality is.'''
    dead = lambda i: ref is not None and i is not None and not ref.insts[i].alive
    # programs over the link class L hold more handles: they use all NI integer slots, the others the first 8
    ni = NI if any(isinstance(v, (E.Handle, E.InstSet)) and v.kind == 'L' for v in env.values()) else 8
    out = [('create', 'zz_', 'PROBE')]
    n = dict(i=0, r=0, s=0, f=0)

    def slot(t):
        k = n[t]
        n[t] += 1
        return k
    for name in sorted(env):
        v = env[name]
        t = E.type_of(v)
        if t == 'integer' and n['i'] < ni:
            out.append(ASG(F('zz_', 'i%d' % slot('i')), V(name)))
        elif t == 'real' and n['r'] < 2:
            out.append(ASG(F('zz_', 'r%d' % slot('r')), V(name)))
        elif t == 'string' and n['s'] < 2:
            out.append(ASG(F('zz_', 's%d' % slot('s')), V(name)))
        elif t == 'boolean' and n['f'] < 2:
            out.append(ASG(F('zz_', 'f%d' % slot('f')), V(name)))
        elif isinstance(v, E.Handle) and dead(v.idx):
            continue
        elif isinstance(v, E.Handle) and n['i'] < ni:
            k = slot('i')
            if v.idx is None:
                out.append(IF(U('empty', V(name)), [ASG(F('zz_', 'i%d' % k), I(77))]))
            else:
                out.append(IF(U('not_empty', V(name)), [ASG(F('zz_', 'i%d' % k), B('+', I(100), F(name, 'K')))]))
        elif isinstance(v, E.InstSet) and n['i'] < ni - 1:
            k, k2 = slot('i'), slot('i')
            out.append(ASG(F('zz_', 'i%d' % k), U('cardinality', V(name))))
            if any(dead(i) for i in v.idxs):
                continue
            q = 'q_' if v.kind == 'A' else 'q%s_' % v.kind.lower()      # one loop variable per class: a variable keeps its type
            out.append(('foreach', q, name, [ASG(F('zz_', 'i%d' % k2), B('+', B('*', F('zz_', 'i%d' % k2), I(10)), F(q, 'K')))], True))
    return out


# ---------------------------------------------------------------------------
# typed statement menu
# ---------------------------------------------------------------------------

def names_of(env, pred):
    return sorted(n for n, v in env.items() if pred(v))


def menu_r4(env, full=True):
    '''Statements over the reflexive association class R4 (A -L- A, phrases 'one'/'other'): relate / unrelate using a link
    instance in both phrasings, and selections from both participants and from the link instance (one/any/many, one- and
    two-step chains, both phrases).  The generated probes add cardinality / empty / not_empty observations of every result.'''
    hsA = names_of(env, lambda v: isinstance(v, E.Handle) and v.kind == 'A')[:3]
    hsL = names_of(env, lambda v: isinstance(v, E.Handle) and v.kind == 'L')[:2]
    setsA = names_of(env, lambda v: isinstance(v, E.InstSet) and v.kind == 'A')[:1]
    setsL = names_of(env, lambda v: isinstance(v, E.InstSet) and v.kind == 'L')[:1]
    out = []
    for x in hsA:
        for y in hsA:
            if x == y and not full:
                continue
            for l in hsL:
                for ph in ('one', 'other'):
                    out.append(('relate', x, y, 'R4', T(ph), l))
                    out.append(('unrelate', x, y, 'R4', T(ph), l))
    # one half of a link at a time (no `using`): a link instance related to one participant only -- not yet / no longer
    # to the other one -- is a state of its own (it also arises when a participant is deleted)
    for x in hsA:
        for l in hsL:
            for ph in ('one', 'other'):
                out.append(('relate', x, l, 'R4', T(ph), None))
                out.append(('unrelate', x, l, 'R4', T(ph), None))
                if full:
                    out.append(('relate', l, x, 'R4', T(ph), None))
                    out.append(('unrelate', l, x, 'R4', T(ph), None))
    for h in hsA + setsA:
        for ph in ('one', 'other'):
            out.append(('selrel', 'many', 'ls', V(h), [('L', 'R4', T(ph))], None))
            out.append(('selrel', 'many', 'as_', V(h), [('A', 'R4', T(ph))], None))
            out.append(('selrel', 'any', 'x', V(h), [('A', 'R4', T(ph))], None))
            out.append(('selrel', 'any', 'lx', V(h), [('L', 'R4', T(ph))], None))
            if full:
                out.append(('selrel', 'one', 'x', V(h), [('A', 'R4', T(ph))], None))
                out.append(('selrel', 'one', 'lx', V(h), [('L', 'R4', T(ph))], None))
                out.append(('selrel', 'many', 'as_', V(h), [('L', 'R4', T(ph)), ('A', 'R4', T(ph))], None))
    for l in hsL + setsL:
        for ph in ('one', 'other'):
            out.append(('selrel', 'many' if l in setsL else 'one', 'as_' if l in setsL else 'x', V(l), [('A', 'R4', T(ph))], None))
            if full and l in hsL:
                out.append(('selrel', 'many', 'as_', V(l), [('A', 'R4', T(ph))], None))
    for l in hsL:
        out.append(('delete', l))
    for h in hsA:
        out.append(('delete', h))
    return out


def menu(env, ref, tier, core_only=False, focus=None):
    if focus == 'R4':
        out = menu_r4(env, full=not core_only)
        nA = len([i for i in ref.insts if i.kind == 'A'])
        nL = len([i for i in ref.insts if i.kind == 'L'])
        if nA < 3:
            out.append(('create', 'a%d' % (nA + 1), 'A'))
        if nL < 2:
            out.append(('create', 'l%d' % (nL + 1), 'L'))
        for h in names_of(env, lambda v: isinstance(v, E.Handle) and v.kind in ('A', 'L')):
            v = env[h]
            if v.idx is not None and ref.insts[v.idx].alive and ref.insts[v.idx].values.get('K') == 0:
                out.append(ASG(F(h, 'K'), I(1 + len([i for i in ref.insts if i.kind == v.kind and i.values.get('K')]))))
        for sname in names_of(env, lambda v: isinstance(v, E.InstSet) and v.kind in ('A', 'L'))[:2]:
            out.append(('return', U('cardinality', V(sname))))
            out.append(('return', U('empty', V(sname))))
        for h in names_of(env, lambda v: isinstance(v, E.Handle) and v.kind in ('A', 'L'))[:2]:
            out.append(('return', U('not_empty', V(h))))
            out.append(('return', V(h)))
        return out
    ints = names_of(env, lambda v: E.type_of(v) == 'integer')
    bools = names_of(env, lambda v: E.type_of(v) == 'boolean')
    strs = names_of(env, lambda v: E.type_of(v) == 'string')
    reals = names_of(env, lambda v: E.type_of(v) == 'real')
    hs = dict((k, names_of(env, lambda v, k=k: isinstance(v, E.Handle) and v.kind == k)) for k in 'ABC')
    sets = dict((k, names_of(env, lambda v, k=k: isinstance(v, E.InstSet) and v.kind == k)) for k in 'ABC')
    out = []
    # creation (bounded pools)
    count = dict((k, len([i for i in ref.insts if i.kind == k])) for k in 'ABC')
    for k, cap, base in (('A', 3, 'a'), ('B', 2, 'b'), ('C', 1, 'c')):
        if count[k] < cap:
            nm = '%s%d' % (base, count[k] + 1)
            out.append(('create', nm, k))
            # key attribute so that instances are distinguishable in observations
    for k in 'ABC':
        for h in hs[k]:
            v = env[h]
            if v.idx is not None and ref.insts[v.idx].alive and ref.insts[v.idx].values.get('K') == 0:
                out.append(ASG(F(h, 'K'), I(1 + len([i for i in ref.insts if i.kind == k and i.values.get('K')]))))
    i0 = ints[0] if ints else None
    a0 = hs['A'][0] if hs['A'] else None
    # integer expressions
    iex = [I(0), I(1), I(3)]
    if i0:
        iex += [B('+', V(i0), I(1)), B('-', V(i0), I(1)), B('*', V(i0), I(2)), B('/', V(i0), I(1)), B('%', V(i0), I(2)),
                U('-', V(i0)), U('+', V(i0)), B('-', I(10), B('-', V(i0), I(1))), B('+', I(1), B('*', V(i0), I(3))),
                B('/', B('*', V(i0), I(4)), I(2))]
    for h in hs['A'][:2] + hs['B'][:1]:
        iex += [F(h, 'N'), B('+', F(h, 'N'), I(1)), U('cardinality', V(h))]
    for k in 'AB':
        for sname in sets[k][:1]:
            iex.append(U('cardinality', V(sname)))
    bex = [TRUE, FALSE]
    if i0:
        bex += [B(op, V(i0), I(1)) for op in ('<', '<=', '==', '!=', '>=', '>')]
        bex += [B('and', B('<', V(i0), I(2)), B('>', V(i0), I(0))), B('or', B('<', V(i0), I(1)), B('>', V(i0), I(1))),
                U('not', B('==', V(i0), I(1)))]
    for f in bools[:1]:
        bex += [U('not', V(f)), B('and', V(f), TRUE), B('or', V(f), FALSE), B('==', V(f), TRUE)]
    for h in hs['A'][:2]:
        bex += [U('empty', V(h)), U('not_empty', V(h)), F(h, 'Flag')]
    if len(hs['A']) >= 2:
        bex += [B('==', V(hs['A'][0]), V(hs['A'][1])), B('!=', V(hs['A'][0]), V(hs['A'][1]))]
    for k in 'AB':
        for sname in sets[k][:1]:
            bex += [U('empty', V(sname)), U('not_empty', V(sname))]
    for s in strs[:1]:
        bex += [B('==', V(s), S('x')), B('!=', V(s), S('x'))]
    sex = [S('x'), S('')]
    for s in strs[:1]:
        sex += [B('+', V(s), S('y')), B('+', S('<'), V(s))]
    if a0:
        sex.append(F(a0, 'Name'))
    rex = [('real', '1.5'), ('real', '0.25')]
    for r in reals[:1]:
        rex += [B('*', V(r), I(2)), B('/', V(r), I(2)), B('+', V(r), ('real', '0.5')), B('-', V(r), V(r)), U('-', V(r))]
    if i0:
        rex.append(B('*', V(i0), ('real', '0.5')))
    if core_only:
        iex, bex, sex, rex = iex[:6], bex[:6], sex[:2], rex[:1]
    for e in iex:
        out.append(ASG(V('i'), e))
    if i0 and not core_only:
        out.append(ASG(V('j'), B('+', V(i0), I(5))))
    for e in bex:
        out.append(ASG(V('f'), e))
    for e in sex:
        out.append(ASG(V('s'), e))
    for e in rex:
        out.append(ASG(V('r'), e))
    # attribute writes
    for h in hs['A'][:2]:
        out.append(ASG(F(h, 'N'), I(2)))
        if i0:
            out.append(ASG(F(h, 'N'), B('+', V(i0), F(h, 'N'))))
        out.append(ASG(F(h, 'Name'), S('n')))
        out.append(ASG(F(h, 'Flag'), TRUE))
        if not core_only:
            out.append(ASG(F(h, 'X'), ('real', '2.5')))
            out.append(ASG(F(h, 'Flag'), U('not', F(h, 'Flag'))))
            if strs:
                out.append(ASG(F(h, 'Name'), B('+', F(h, 'Name'), V(strs[0]))))
    for h in hs['B'][:1]:
        out.append(ASG(F(h, 'N'), I(1)))
    # delete
    for k in 'ABC':
        for h in hs[k]:
            out.append(('delete', h))
    # relate / unrelate
    for b in hs['B']:
        for a in hs['A']:
            out.append(('relate', b, a, 'R1', None, None))
            out.append(('unrelate', b, a, 'R1', None, None))
            if not core_only:
                out.append(('relate', a, b, 'R1', None, None))
                out.append(('unrelate', a, b, 'R1', None, None))
            for c in hs['C']:
                out.append(('relate', a, b, 'R3', None, c))
                out.append(('unrelate', a, b, 'R3', None, c))
    if not core_only:
        # one half of a link across R3 at a time: the link instance c is related to one participant only
        for c in hs['C']:
            for x in hs['A'] + hs['B']:
                out.append(('relate', x, c, 'R3', None, None))
                out.append(('unrelate', c, x, 'R3', None, None))
    for x in hs['A']:
        for y in hs['A']:
            if x != y or not core_only:
                out.append(('relate', x, y, 'R2', T('prev'), None))
                out.append(('unrelate', x, y, 'R2', T('prev'), None))
                if not core_only:
                    out.append(('relate', x, y, 'R2', T('next'), None))
    # selections from instances
    sel = ('selected',)
    wheres = [None, B('==', ('field', sel, 'N'), I(0)), B('>', ('field', sel, 'N'), I(1)), ('field', sel, 'Flag'),
              B('or', B('==', ('field', sel, 'K'), I(2)), ('field', sel, 'Flag'))]
    if i0:
        wheres.append(B('<', ('field', sel, 'N'), V(i0)))
    if strs:
        wheres.append(B('==', ('field', sel, 'Name'), V(strs[0])))
    if core_only:
        wheres = wheres[:2]
    for w in wheres:
        out.append(('selfrom', 'any', 'x', 'A', w, True))
        out.append(('selfrom', 'many', 'as_', 'A', w, True))
    out.append(('selfrom', 'many', 'bs', 'B', None, False))
    out.append(('selfrom', 'any', 'y', 'B', B('==', ('field', sel, 'N'), I(1)), False))
    # related selections
    wb = [None, B('==', ('field', sel, 'N'), I(1))]
    for h in hs['A'][:2] + sets['A'][:1]:
        for w in wb:
            out.append(('selrel', 'many', 'bs', V(h), [('B', 'R1', None)], w))
            out.append(('selrel', 'any', 'y', V(h), [('B', 'R1', None)], w))
        out.append(('selrel', 'many', 'bs', V(h), [('B', 'R3', None)], None))       # across the link class C, not naming it
        if not core_only:
            out.append(('selrel', 'many', 'bs', V(h), [('C', 'R3', None), ('B', 'R3', None)], None))
            out.append(('selrel', 'many', 'cs', V(h), [('C', 'R3', None)], None))
        out.append(('selrel', 'one', 'x', V(h), [('A', 'R2', T('prev'))], None))
        out.append(('selrel', 'one', 'x', V(h), [('A', 'R2', T('next'))], None))
        if not core_only:
            out.append(('selrel', 'any', 'x', V(h), [('A', 'R2', T('next')), ('A', 'R2', T('next'))], None))
            out.append(('selrel', 'many', 'as_', V(h), [('B', 'R1', None), ('A', 'R1', None)], None))
    for h in hs['B'][:2] + sets['B'][:1]:
        out.append(('selrel', 'one', 'x', V(h), [('A', 'R1', None)], None))
        out.append(('selrel', 'many', 'as_', V(h), [('A', 'R1', None)], B('==', ('field', sel, 'N'), I(2))))
        if not core_only:
            out.append(('selrel', 'any', 'x', V(h), [('A', 'R1', None), ('A', 'R2', T('prev'))], None))
            out.append(('selrel', 'many', 'as_', V(h), [('A', 'R3', None)], None))
    # terminals
    out.append(('stop',))
    out.append(('return', None))
    for e in (iex[:3] + bex[:2] + sex[:1] + rex[:1]) if core_only else (iex + bex[:8] + sex + rex):
        out.append(('return', e))
    for h in hs['A'][:1]:
        out.append(('return', V(h)))
    for sname in sets['A'][:1] + sets['B'][:1]:
        out.append(('return', V(sname)))
    # compound statements
    if i0:
        c1, c2 = B('<', V(i0), I(2)), B('==', V(i0), I(2))
        inc = ASG(V(i0), B('+', V(i0), I(1)))
        out.append(IF(c1, [inc]))
        out.append(IF(c1, [inc], [], [ASG(V(i0), I(0))]))
        out.append(IF(c1, [ASG(V(i0), I(10))], [(c2, [ASG(V(i0), I(20))])], [ASG(V(i0), I(30))]))
        out.append(IF(c1, [ASG(V(i0), I(10))], [(c2, [ASG(V(i0), I(20))]), (TRUE, [ASG(V(i0), I(25))])], None))
        out.append(IF(c1, [IF(c2, [ASG(V(i0), I(40))], [], [inc, inc])], [], [('return', V(i0))]))
        out.append(IF(c1, [ASG(V('t'), I(5)), ASG(V(i0), B('+', V(i0), V('t')))]))
        w = B('<', V(i0), I(4))
        out.append(('while', w, [inc], True))
        out.append(('while', w, [inc, IF(c2, [('break',)])], False))
        out.append(('while', w, [inc, IF(c2, [('continue',)]), ASG(V(i0), B('+', V(i0), I(1)))], True))
        out.append(('while', w, [inc, IF(c2, [('return', V(i0))])], True))
        if not core_only:
            out.append(('while', w, [ASG(V('t'), V(i0)), inc, ('while', B('<', V('t'), I(2)), [ASG(V('t'), B('+', V('t'), I(1))), ('break',)], True)], True))
            out.append(('while', w, [inc, IF(c2, [('stop',)])], True))
            if hs['A']:
                out.append(('while', w, [inc, ('create', None, 'B')], True))
    for sname in sets['A'][:1]:
        body = [ASG(F('e_', 'N'), B('+', F('e_', 'N'), I(1)))]
        out.append(('foreach', 'e_', sname, body, True))
        out.append(('foreach', 'e_', sname, [IF(B('==', F('e_', 'N'), I(0)), [('continue',)])] + body, True))
        out.append(('foreach', 'e_', sname, body + [IF(B('>', F('e_', 'N'), I(0)), [('break',)])], False))
        if i0:
            out.append(('foreach', 'e_', sname, [ASG(V(i0), B('+', B('*', V(i0), I(10)), F('e_', 'K')))], True))
        if not core_only:
            out.append(('foreach', 'e_', sname, [('delete', 'e_')], True))
            out.append(('foreach', 'e_', sname, [('selrel', 'many', 'bs2', V('e_'), [('B', 'R1', None)], None),
                                                 ('foreach', 'g_', 'bs2', [ASG(F('g_', 'N'), F('e_', 'N'))], True)], True))
            out.append(('foreach', 'e_', sname, [IF(F('e_', 'Flag'), [('return', V('e_'))])], True))
    for sname in sets['A'][:1]:
        # the loop variable is a name that is already bound (same type) in the enclosing block
        for h in hs['A'][:2]:
            out.append(('foreach', h, sname, [ASG(F(h, 'N'), B('+', F(h, 'N'), I(5)))], True))
            if i0:
                out.append(('foreach', h, sname, [ASG(V(i0), B('+', B('*', V(i0), I(10)), F(h, 'K')))], False))
                out.append(IF(B('<', V(i0), I(9)), [('foreach', h, sname, [ASG(F(h, 'N'), B('+', F(h, 'K'), I(20)))], True)]))
    for sname in sets['B'][:1]:
        out.append(('foreach', 'e_', sname, [ASG(F('e_', 'N'), B('+', F('e_', 'N'), I(2)))], True))
    return out


# ---------------------------------------------------------------------------
# running both sides
# ---------------------------------------------------------------------------

def run_reference(prog):
    '''Returns (result, ref, env) or raises OutOfDomain.'''
    ref = relmodel.Ref(SCHEMA)
    ev = E.Evaluator(ref)
    value = ev.run(prog)
    return value, ref, ev.last_env


def norm_ref_value(v):
    if v is None:
        return None
    if isinstance(v, E.Handle):
        return ['inst', v.idx] if v.idx is not None else None      # an empty handle is delivered as nothing
    if isinstance(v, E.InstSet):
        return ['set', list(v.idxs)]
    if isinstance(v, bool):
        return ['bool', v]
    if isinstance(v, (int, float)):
        return ['num', float(v)]
    return ['str', v]


def run_real(text, ref_for_labels):
    '''Runs the program text on a fresh Domain; returns (normalised value, observation, values) or an error string.'''
    import xtuml
    from bridgepoint import ooaofooa, interpret
    dom = relmodel.build_real(xtuml, SCHEMA, xtuml.IntegerGenerator(), factory=ooaofooa.Domain)
    with core.time_limit(10.0):
        value = interpret.run_function(dom, 'c04', text, {})
    label = {}
    sizes = {}
    for k in SCHEMA.kinds():
        insts = list(dom.select_many(k))
        sizes[k] = len(insts)
        for inst, idx in zip(insts, ref_for_labels.order[k]):
            label[inst] = idx
    obs = relmodel.observe_real(xtuml, dom, SCHEMA, label)
    values = {}
    for k in SCHEMA.kinds():
        refs = SCHEMA.referentials(k)
        for inst in dom.select_many(k):
            for n, t in SCHEMA.attrs(k):
                if n in refs or t == 'unique_id':
                    continue
                values['%s.%s' % (label.get(inst, '?'), n)] = norm_scalar(getattr(inst, n))
    if value is None:
        nv = None
    elif isinstance(value, xtuml.Class):
        nv = ['inst', label.get(value, '?')]
    elif isinstance(value, bool):
        nv = ['bool', value]
    elif isinstance(value, (int, float)):
        nv = ['num', float(value)]
    elif isinstance(value, str):
        nv = ['str', value]
    else:
        try:
            nv = ['set', [label.get(i, '?') for i in value]]
        except TypeError:
            nv = ['other', repr(value)]
    return nv, obs, values, sizes


def norm_scalar(v):
    if isinstance(v, bool):
        return ['bool', v]
    if isinstance(v, (int, float)):
        return ['num', float(v)]
    return ['str', v]


def ref_values(ref):
    values = {}
    for k in SCHEMA.kinds():
        refs = SCHEMA.referentials(k)
        for idx in ref.order[k]:
            for n, t in SCHEMA.attrs(k):
                if n in refs or t == 'unique_id':
                    continue
                values['%d.%s' % (idx, n)] = norm_scalar(ref.insts[idx].values[n])
    return values


def check_program(ctx, prog, family, layout=None, sigprefix='c04', extra_case=None):
    '''Run one complete program (with probes) on both sides. Returns ('ood'|'ok'|'bad', ...)'''
    try:
        _, ref0, env = run_reference(prog)
    except E.OutOfDomain:
        return 'ood', None
    probes = probe_statements(env, ref0) if env is not None else []
    full = list(prog) + probes
    try:
        exp_value, ref, _ = run_reference(full)
    except E.OutOfDomain:
        return 'ood', None
    p = A.print_program(full)
    text, _ = A.assemble(p, layout or A.Layout(default=' '))
    ctx.count('runs')
    case = dict(prog=prog, family=family)
    case.update(extra_case or {})
    try:
        got_value, obs, values, sizes = run_real(text, ref)
    except core.Timeout:
        ctx.violation(sigprefix + ':hang', case, 'program does not terminate within 10 s although the reference does: %s' % text, None, 'timeout',
                      unit_test=unit_test(text))
        return 'bad', None
    except Exception as e:
        ctx.violation(sigprefix + ':crash:%s' % type(e).__name__, case, 'interpreter raised %s: %s on: %s' % (type(e).__name__, e, text),
                      None, type(e).__name__, unit_test=unit_test(text))
        return 'bad', None
    exp_sizes = dict((k, len(v)) for k, v in ref.order.items())
    kind = stmt_kind(prog[-1]) if prog else 'empty'
    if sizes != exp_sizes:
        ctx.violation(sigprefix + ':%s:population' % kind, case, 'instance counts %s, expected %s after: %s' % (sizes, exp_sizes, text),
                      exp_sizes, sizes, unit_test=unit_test(text))
        return 'bad', None
    ev = norm_ref_value(exp_value)
    if got_value != ev:
        ctx.violation(sigprefix + ':%s:return-value' % kind, case, 'returned %r, expected %r for: %s' % (got_value, ev, text), ev, got_value,
                      unit_test=unit_test(text))
        return 'bad', None
    d = relmodel.diff_obs(ref.observe(), obs)
    if d:
        ctx.violation(sigprefix + ':%s:links' % kind, case, '%s after: %s' % (d, text), None, None, unit_test=unit_test(text))
        return 'bad', None
    rv = ref_values(ref)
    if rv != values:
        diff = [(k, rv.get(k), values.get(k)) for k in sorted(set(rv) | set(values)) if rv.get(k) != values.get(k)][:4]
        ctx.violation(sigprefix + ':%s:attribute-values' % kind, case, 'attribute values differ (key, expected, observed) %s after: %s' % (diff, text),
                      None, diff, unit_test=unit_test(text))
        return 'bad', None
    ctx.count('traces')
    return 'ok', (ref, env)


def stmt_kind(s):
    k = s[0]
    if k == 'assign':
        rhs = s[2]
        if rhs[0] in ('bin', 'un'):
            return 'assign:%s' % rhs[1]
        return 'assign'
    if k in ('selfrom', 'selrel'):
        return '%s:%s' % (k, s[1])
    return k


def unit_test(text):
    return ('import xtuml\nfrom bridgepoint import ooaofooa, interpret\n# schema: see mc/props/c04.py SCHEMA (build with '
            'mc.refs.relmodel.build_real(xtuml, SCHEMA, xtuml.IntegerGenerator(), factory=ooaofooa.Domain))\n'
            'print(interpret.run_function(dom, "f", %r, {}))' % text)


# ---------------------------------------------------------------------------
# the search
# ---------------------------------------------------------------------------

def canon(ref, env):
    obs = ref.observe()
    vals = ref_values(ref)
    e = sorted((n, repr(v)) for n, v in (env or {}).items())
    dead = [i.idx for i in ref.insts if not i.alive]
    return json.dumps([obs, vals, e, dead], sort_keys=True, default=repr)


SETUPS = [
    [],
    [('create', 'a1', 'A'), ASG(F('a1', 'K'), I(1)), ('create', 'a2', 'A'), ASG(F('a2', 'K'), I(2)), ASG(F('a2', 'N'), I(2)),
     ('create', 'b1', 'B'), ASG(F('b1', 'K'), I(1)), ASG(F('b1', 'N'), I(1)), ('create', 'b2', 'B'), ASG(F('b2', 'K'), I(2)),
     ('relate', 'b1', 'a1', 'R1', None, None), ('relate', 'b2', 'a1', 'R1', None, None),
     ('relate', 'a1', 'a2', 'R2', T('prev'), None), ASG(V('i'), I(1))],
    [('create', 'a1', 'A'), ASG(F('a1', 'K'), I(1)), ASG(F('a1', 'Flag'), TRUE), ('create', 'a2', 'A'), ASG(F('a2', 'K'), I(2)),
     ('create', 'a3', 'A'), ASG(F('a3', 'K'), I(3)), ASG(F('a3', 'N'), I(2)), ASG(F('a3', 'Name'), S('x')),
     ('create', 'b1', 'B'), ASG(F('b1', 'K'), I(1)), ('create', 'c1', 'C'), ASG(F('c1', 'K'), I(1)),
     ('relate', 'a2', 'b1', 'R3', None, 'c1'), ('relate', 'b1', 'a3', 'R1', None, None),
     ('relate', 'a1', 'a2', 'R2', T('prev'), None), ('relate', 'a2', 'a3', 'R2', T('prev'), None),
     ('selfrom', 'many', 'as_', 'A', None, True), ASG(V('i'), I(0)), ASG(V('s'), S('x')), ASG(V('f'), FALSE)],
    # reflexive association class: one linked pair, a spare participant and a spare link instance
    [('create', 'a1', 'A'), ASG(F('a1', 'K'), I(1)), ('create', 'a2', 'A'), ASG(F('a2', 'K'), I(2)), ('create', 'a3', 'A'), ASG(F('a3', 'K'), I(3)),
     ('create', 'l1', 'L'), ASG(F('l1', 'K'), I(1)), ('create', 'l2', 'L'), ASG(F('l2', 'K'), I(2)),
     ('relate', 'a1', 'a2', 'R4', T('one'), 'l1')],
    # reflexive association class: a1 is the start of two links (fan-out), one of them made in the other phrasing
    [('create', 'a1', 'A'), ASG(F('a1', 'K'), I(1)), ('create', 'a2', 'A'), ASG(F('a2', 'K'), I(2)), ('create', 'a3', 'A'), ASG(F('a3', 'K'), I(3)),
     ('create', 'l1', 'L'), ASG(F('l1', 'K'), I(1)), ('create', 'l2', 'L'), ASG(F('l2', 'K'), I(2)),
     ('relate', 'a1', 'a2', 'R4', T('one'), 'l1'), ('relate', 'a3', 'a1', 'R4', T('other'), 'l2')],
]
# menu used below a setup: None = the general menu, 'R4' = the statements over the reflexive association class only
SETUP_FOCUS = [None, None, None, 'R4', 'R4']
POPULATION_CHANGING = ('relate', 'unrelate', 'delete', 'create')


def expand(sub, task):
    tier, depth_left, prefix, focus = task
    try:
        _, ref, env = run_reference(prefix)
    except E.OutOfDomain:
        return []
    if env is None:
        return []       # the prefix already returned / stopped
    out = []
    core_only = depth_left <= 1 and len(prefix) > 0 and tier == 'quick' and False
    for s in explorer.rotate(menu(env, ref, tier, core_only=(tier == 'quick' and depth_left < DEPTH[tier]), focus=focus), sub.seed):
        prog = prefix + [s]
        sub.count('candidates')
        status, res = check_program(sub, prog, 'seq')
        if status == 'ood':
            sub.count('out_of_domain')
            continue
        sub.count('transitions')
        sub.distinct('stmt_kinds', stmt_kind(s))
        if has_loop_or_where(s):
            sub.distinct('nontrivial', repr(prog))
        if status == 'ok':
            ref2, env2 = res
            # below a focused setup only statements that change the population lead to states that are expanded further
            if env2 is not None and (focus is None or s[0] in POPULATION_CHANGING):
                out.append((canon(ref2, env2), s))
    return out


def has_loop_or_where(s):
    if s[0] in ('while', 'foreach', 'if'):
        return True
    if s[0] in ('selfrom',) and s[4] is not None:
        return True
    if s[0] == 'selrel':
        return True
    return False


# ---------------------------------------------------------------------------
# select any/one ... related by ... where: the choice among matching instances is left open
# ---------------------------------------------------------------------------

def fan_population(order):
    """A population with fan-out along every relationship; *order* permutes the order in which the to-many links are made
    (the order in which a chain delivers the related instances), so that every position of the instance(s) satisfying a
    where clause occurs."""
    p = []
    for i, (n, flag) in enumerate(((0, False), (2, True), (1, False)), 1):
        p += [('create', 'a%d' % i, 'A'), ASG(F('a%d' % i, 'K'), I(i)), ASG(F('a%d' % i, 'N'), I(n))]
        if flag:
            p.append(ASG(F('a%d' % i, 'Flag'), TRUE))
    for i, n in enumerate((1, 0, 2), 1):
        p += [('create', 'b%d' % i, 'B'), ASG(F('b%d' % i, 'K'), I(i)), ASG(F('b%d' % i, 'N'), I(n))]
    for i in (1, 2):
        p += [('create', 'c%d' % i, 'C'), ASG(F('c%d' % i, 'K'), I(i)), ('create', 'l%d' % i, 'L'), ASG(F('l%d' % i, 'K'), I(i))]
    r1 = [('relate', 'b%d' % i, 'a1', 'R1', None, None) for i in (1, 2, 3)]
    r3 = [('relate', 'a1', 'b1', 'R3', None, 'c1'), ('relate', 'a1', 'b3', 'R3', None, 'c2')]
    r4 = [('relate', 'a1', 'a2', 'R4', T('one'), 'l1'), ('relate', 'a1', 'a3', 'R4', T('one'), 'l2')]
    p += [r1[k] for k in order]
    p += [r3[k] for k in order if k < 2]
    p += [r4[k] for k in order if k < 2]
    p += [('relate', 'a1', 'a2', 'R2', T('prev'), None), ('relate', 'a2', 'a3', 'R2', T('prev'), None),
          ('selfrom', 'many', 'as_', 'A', None, True), ASG(V('i'), I(2))]
    return p


FAN_ORDERS = {'quick': [[0, 1, 2], [2, 1, 0]], 'thorough': [[0, 1, 2], [0, 2, 1], [1, 0, 2], [1, 2, 0], [2, 0, 1], [2, 1, 0]]}
# (start variable, chain); the last class of the chain is the class of `selected`
ANYREL_CHAINS = [
    ('a1', [('B', 'R1', None)]), ('as_', [('B', 'R1', None)]), ('b2', [('A', 'R1', None), ('B', 'R1', None)]),
    ('a1', [('B', 'R3', None)]), ('a1', [('C', 'R3', None)]), ('a1', [('C', 'R3', None), ('B', 'R3', None)]),
    ('a1', [('A', 'R4', T('one'))]), ('a1', [('L', 'R4', T('one'))]), ('a1', [('L', 'R4', T('one')), ('A', 'R4', T('one'))]),
    ('a2', [('A', 'R4', T('other'))]), ('as_', [('A', 'R4', T('other'))]), ('l2', [('A', 'R4', T('one'))]),
    ('a1', [('A', 'R2', T('prev'))]), ('as_', [('A', 'R2', T('prev'))]), ('a1', [('A', 'R2', T('prev')), ('A', 'R2', T('prev'))]),
    # round 7 (C04-13): chains that come back to a class -- and to instances -- they have already passed
    ('b2', [('A', 'R1', None), ('B', 'R1', None), ('A', 'R1', None)]),
    ('a1', [('B', 'R1', None), ('A', 'R1', None), ('B', 'R1', None)]),
    ('a2', [('A', 'R2', T('prev')), ('A', 'R2', T('next')), ('A', 'R2', T('prev'))]),
    ('a2', [('A', 'R2', T('next')), ('A', 'R2', T('prev')), ('A', 'R2', T('next'))]),
    ('as_', [('A', 'R2', T('prev')), ('A', 'R2', T('next'))]),
    ('a1', [('L', 'R4', T('one')), ('A', 'R4', T('one')), ('L', 'R4', T('other')), ('A', 'R4', T('other'))]),
    ('a1', [('C', 'R3', None), ('B', 'R3', None), ('C', 'R3', None), ('A', 'R3', None)]),
]
RETURNING_CHAINS = range(15, 22)
_SEL = ('selected',)
ANYREL_WHERES = [
    B('==', ('field', _SEL, 'K'), I(1)), B('==', ('field', _SEL, 'K'), I(2)), B('==', ('field', _SEL, 'K'), I(3)),
    B('<', ('field', _SEL, 'K'), I(3)), B('>', ('field', _SEL, 'K'), I(3)),
    B('>=', ('field', _SEL, 'K'), V('i')),                                                     # a variable of the enclosing block
]
ANYREL_WHERES_THOROUGH = [B('>', ('field', _SEL, 'K'), I(1)),
                          U('not', B('or', B('==', ('field', _SEL, 'K'), I(1)), B('==', ('field', _SEL, 'K'), I(2))))]
ANYREL_WHERES_AB = [B('==', ('field', _SEL, 'N'), I(0)), B('>=', ('field', _SEL, 'N'), I(1))]     # classes A and B have N


def anyrel_cases(tier):
    out = []
    for order in FAN_ORDERS[tier]:
        for ci, (start, chain) in enumerate(ANYREL_CHAINS):
            wheres = anyrel_wheres(chain, tier)
            for wi in range(len(wheres)):
                for card, variant in (('any', 'instance'), ('any', 'oal'), ('one', 'instance'), ('many', 'count')) + ((('one', 'oal'),) if tier == 'thorough' else ()):
                    out.append(dict(family='anyrel', order=order, chain=ci, where=wi, card=card, variant=variant))
    return out


def anyrel_wheres(chain, tier='thorough'):
    # the index of a clause in this list is what a replay case records; the quick list is a prefix of the thorough one
    w = ANYREL_WHERES + (ANYREL_WHERES_AB if chain[-1][0] in 'AB' else [])
    return w + (ANYREL_WHERES_THOROUGH if tier == 'thorough' else [])


def check_anyrel(ctx, case):
    """
    `select any|one v related by <start>-><chain> where (<clause>)`: with S = the instances the same chain and clause
    select with `select many` in the reference, v must be empty exactly when S is empty and otherwise be a member of S
    (which member is not compared).  `one` is only used where the chain itself (without the clause) reaches at most
    one instance.  variant 'instance': the body returns v; 'oal': the body tests empty / not_empty itself and returns the
    key K of v.  The final population must be the unchanged one.
    """
    start, chain = ANYREL_CHAINS[case['chain']]
    where = anyrel_wheres(chain)[case['where']]
    card = case['card']
    pop = fan_population(case['order'])
    try:
        _, ref, env = run_reference(pop + [('selrel', 'many', 'vs_', V(start), chain, None), ('selrel', 'many', 'ws_', V(start), chain, where)])
    except E.OutOfDomain:
        return 'ood'
    reach, S = list(env['vs_'].idxs), list(env['ws_'].idxs)
    if card == 'one' and len(reach) > 1:
        return 'ood'
    sel = ('selrel', card, 'v', V(start), chain, where)
    if card == 'many':
        # the whole selection: as many instances as the reference selects, with and without the clause
        prog = pop + [sel, ('selrel', 'many', 'u', V(start), chain, None),
                      ('return', B('+', B('*', U('cardinality', V('u')), I(100)), U('cardinality', V('v'))))]
    elif case['variant'] == 'instance':
        prog = pop + [sel, ('return', V('v'))]
    else:
        prog = pop + [sel, IF(U('empty', V('v')), [('return', U('-', I(1)))]), IF(U('not_empty', V('v')), [('return', F('v', 'K'))]),
                      ('return', U('-', I(2)))]
    _, ref, _ = run_reference(pop)
    text, _ = A.assemble(A.print_program(prog), A.Layout(default=' '))
    ctx.count('runs')
    ctx.count('anyrel_runs')
    sig = 'c04:anyrel:%s' % card
    try:
        got, obs, values, sizes = run_real(text, ref)
    except core.Timeout:
        ctx.violation(sig + ':hang', case, 'program does not terminate within 10 s: %s' % text, None, 'timeout', unit_test=unit_test(text))
        return 'bad'
    except Exception as e:
        ctx.violation(sig + ':crash:%s' % type(e).__name__, case, 'interpreter raised %s: %s on: %s' % (type(e).__name__, e, text),
                      None, type(e).__name__, unit_test=unit_test(text))
        return 'bad'
    if card == 'many':
        exp = float(100 * len(reach) + len(S))
        if got is None or got[0] != 'num' or got[1] != exp:
            ctx.violation(sig + ':cardinality', case, 'returned %r, expected %r (100 x the %d related instances + the %d satisfying '
                          'the clause) for: %s' % (got, exp, len(reach), len(S), text), exp, got, unit_test=unit_test(text))
            return 'bad'
        ctx.count('traces')
        ctx.count('anyrel_many')
        if case['chain'] in RETURNING_CHAINS and reach:
            ctx.count('anyrel_returning_chains_nonempty')
        return 'ok'
    if case['variant'] == 'instance':
        chosen = got[1] if got is not None and got[0] == 'inst' else None
        shape_ok = got is None or got[0] == 'inst'
    else:
        shape_ok = got is not None and got[0] == 'num' and got[1] != -2.0
        chosen = None
        if shape_ok and got[1] != -1.0:
            ks = [i for i in ref.order[ref._kind(chain[-1][0])] if float(ref.insts[i].values['K']) == got[1]]
            chosen = ks[0] if ks else '?'
    expected = 'nothing' if not S else 'one of the instances %s' % S
    if not shape_ok:
        ctx.violation(sig + ':result-shape', case, 'returned %r, expected %s for: %s' % (got, expected, text), expected, got, unit_test=unit_test(text))
        return 'bad'
    if chosen is None and S:
        ctx.violation(sig + ':empty-although-a-related-instance-satisfies-the-clause', case,
                      'selected nothing; the related instances are %s, of which %s satisfy the clause: %s' % (reach, S, text),
                      expected, got, unit_test=unit_test(text))
        return 'bad'
    if chosen is not None and chosen not in S:
        ctx.violation(sig + ':selected-instance-not-among-the-matching', case,
                      'selected instance %r; the related instances are %s, of which %s satisfy the clause: %s' % (chosen, reach, S, text),
                      expected, got, unit_test=unit_test(text))
        return 'bad'
    exp_sizes = dict((k, len(v)) for k, v in ref.order.items())
    d = None if sizes == exp_sizes else 'instance counts %s, expected %s' % (sizes, exp_sizes)
    d = d or relmodel.diff_obs(ref.observe(), obs)
    if not d and ref_values(ref) != values:
        d = 'attribute values differ'
    if d:
        ctx.violation(sig + ':population-changed', case, '%s after: %s' % (d, text), None, None, unit_test=unit_test(text))
        return 'bad'
    ctx.count('traces')
    ctx.count('anyrel_nonempty' if S else 'anyrel_empty')
    if S and reach and reach[0] not in S:
        ctx.count('anyrel_first_related_fails_later_matches')
    ctx.distinct('nontrivial', repr(prog[len(pop):]) + repr(case['order']))
    return 'ok'


def anyrel_task(sub, cases):
    for case in cases:
        sub.count('candidates')
        if check_anyrel(sub, case) == 'ood':
            sub.count('out_of_domain')
        else:
            sub.count('transitions')



# ---------------------------------------------------------------------------
# family boolexpr: boolean expressions written with the minimal parentheses the language's precedence requires (or below and
# below the comparisons below not), over every valuation of their atoms, in every place a boolean expression can stand
# ---------------------------------------------------------------------------

def _trees(lo, hi, ops):
    """Every binary tree over the leaves lo..hi-1 (in this order), every assignment of operators."""
    if hi - lo == 1:
        return [('leaf', lo)]
    out = []
    for split in range(lo + 1, hi):
        for op in ops:
            for l in _trees(lo, split, ops):
                for r in _trees(split, hi, ops):
                    out.append(('bin', op, l, r))
    return out


def _with_nots(t, root=True):
    """t with `not` in front of every subset of its leaves and inner nodes (not the root)."""
    if t[0] == 'leaf':
        base = [t]
    else:
        base = [('bin', t[1], l, r) for l in _with_nots(t[2], False) for r in _with_nots(t[3], False)]
    return base if root else base + [('un', 'not', x) for x in base]


def _single_nots(t):
    """t, and t with `not` in front of one leaf or one inner node (not the root)."""
    out = [t]

    def walk(x, rebuild, root):
        if not root:
            out.append(rebuild(('un', 'not', x)))
        if x[0] == 'bin':
            walk(x[2], lambda y, x=x: rebuild(('bin', x[1], y, x[3])), False)
            walk(x[3], lambda y, x=x: rebuild(('bin', x[1], x[2], y)), False)
    walk(t, lambda y: y, True)
    return out


def _fill(t, atoms):
    if t[0] == 'leaf':
        return atoms[t[1]]
    if t[0] == 'un':
        return ('un', t[1], _fill(t[2], atoms))
    return ('bin', t[1], _fill(t[2], atoms), _fill(t[3], atoms))


def _dedup(ts):
    seen, out = set(), []
    for t in ts:
        if repr(t) not in seen:
            seen.add(repr(t))
            out.append(t)
    return out


BOOL_LOGIC = ('and', 'or')
BOOL_ALL = ('and', 'or', '==', '!=')


def bool_templates(tier):
    """(every template, the short list) of the tier: three leaves -- every tree over and / or with every placement of `not`,
    every tree over and / or / == / != without; four leaves -- every tree over and / or.  The short list (three leaves, and / or,
    at most one `not`) is what the more expensive contexts use in the quick tier."""
    three = _trees(0, 3, BOOL_LOGIC)
    full = []
    for t in three:
        full += _with_nots(t)
    full += _trees(0, 3, BOOL_ALL)
    short = []
    for t in three:
        short += _single_nots(t)
    four = _trees(0, 4, BOOL_LOGIC)
    if tier == 'thorough':
        four = four + [x for t in four for x in _single_nots(t)]
        short = full
    return _dedup(full), _dedup(short), _dedup(four)


def bool_atoms(h):
    """Three independent boolean atoms over the instance h: an attribute read and two comparisons."""
    return [('field', h, 'Flag'), B('==', ('field', h, 'N'), I(1)), B('==', ('field', h, 'Name'), S('x'))]


def bool_population():
    """Eight instances of A, one for every valuation of the three atoms (bit k of K - 1 = atom k), in a ring along R2."""
    p = []
    for k in range(8):
        a = 'a%d' % (k + 1)
        p += [('create', a, 'A'), ASG(F(a, 'K'), I(k + 1))]
        if k & 1:
            p.append(ASG(F(a, 'Flag'), TRUE))
        if k & 2:
            p.append(ASG(F(a, 'N'), I(1)))
        if k & 4:
            p.append(ASG(F(a, 'Name'), S('x')))
    for k in range(8):
        p.append(('relate', 'a%d' % (k + 1), 'a%d' % ((k + 1) % 8 + 1), 'R2', T('prev'), None))
    p.append(('selfrom', 'many', 'as_', 'A', None, True))
    return p


BOOL_CONTEXTS = ['where-many', 'where-any', 'where-related', 'if', 'elif', 'while', 'assign']


def bool_program(context, tmpl, bits=None):
    """The program evaluating the template in the context: over all eight instances, or (context return) over variables
    holding the valuation *bits*."""
    sel = ('selected',)
    if context == 'return':
        names = ['p', 'q', 'r', 'u'][:len(bits)]
        return [ASG(V(n), TRUE if b else FALSE) for n, b in zip(names, bits)] + [('return', _fill(tmpl, [V(n) for n in names]))]
    pop = bool_population()
    if context == 'where-many':
        return pop + [('selfrom', 'many', 'rs', 'A', _fill(tmpl, bool_atoms(sel)), True), ('return', V('rs'))]
    if context == 'where-any':
        return pop + [('selfrom', 'any', 'x', 'A', _fill(tmpl, bool_atoms(sel)), True), ('return', V('x'))]
    if context == 'where-related':
        return pop + [('selrel', 'many', 'rs', V('as_'), [('A', 'R2', T('prev'))], _fill(tmpl, bool_atoms(sel))), ('return', V('rs'))]
    e = _fill(tmpl, bool_atoms(V('x')))
    hit, miss = [ASG(V('n'), B('+', B('*', V('n'), I(2)), I(1)))], [ASG(V('n'), B('*', V('n'), I(2)))]
    if context == 'if':
        body = [IF(e, hit, [], miss)]
    elif context == 'elif':
        body = [IF(B('<', V('n'), I(0)), miss, [(e, hit)], miss)]
    elif context == 'while':
        body = miss + [('while', e, [ASG(V('n'), B('+', V('n'), I(1))), ('break',)], True)]
    elif context == 'assign':
        body = [ASG(V('f'), e), IF(V('f'), hit, [], miss)]
    else:
        raise ValueError(context)
    return pop + [ASG(V('n'), I(0)), ('foreach', 'x', 'as_', body, True), ('return', V('n'))]


def boolexpr_cases(tier):
    full, short, four = bool_templates(tier)
    out = []
    for t in full:
        for v in range(8):
            out.append(dict(family='boolexpr', context='return', tmpl=t, bits=[v & 1, v & 2, v & 4]))
        out.append(dict(family='boolexpr', context='where-many', tmpl=t, bits=None))
    for t in (four if tier == 'thorough' else []):
        for v in range(16):
            out.append(dict(family='boolexpr', context='return', tmpl=t, bits=[v & 1, v & 2, v & 4, v & 8]))
    for c in BOOL_CONTEXTS[1:]:
        for t in short:
            out.append(dict(family='boolexpr', context=c, tmpl=t, bits=None))
    return out


# ---------------------------------------------------------------------------
# family eqchain (round 11, C04-22): where clauses that are chains of equality terms on `selected` -- the same attribute
# constrained once, twice with one value, twice with two values; values as literals and as variables; both operand orders
# ---------------------------------------------------------------------------

def eq_terms():
    sel = ('selected',)
    terms = []
    for attr, vals in (('N', [I(0), I(1), V('lo'), V('hi')]), ('K', [I(1), I(2)]), ('Name', [S('x'), S('')])):
        for v in vals:
            terms.append(B('==', ('field', sel, attr), v))
    # the same terms with the operands the other way round (literal values only)
    swapped = [B('==', t[3], t[2]) for t in terms if t[3][0] != 'var']
    return terms, swapped


def eqchain_cases(tier):
    terms, swapped = eq_terms()
    chains = []
    for a in terms + swapped:
        for b in terms + swapped:
            chains.append(('and', [a, b]))
    for a in terms:
        for b in terms:
            chains.append(('or', [a, b]))
            for c in (terms if tier == 'thorough' else terms[:4]):
                chains.append(('and', [a, b, c]))
    out = []
    pre = [ASG(V('lo'), I(0)), ASG(V('hi'), I(1))]
    for op, ts in chains:
        e = ts[0]
        for t in ts[1:]:
            e = B(op, e, t)
        for context in ('where-many', 'where-any', 'where-related'):
            if context == 'where-many':
                tail = [('selfrom', 'many', 'rs', 'A', e, True), ('return', V('rs'))]
            elif context == 'where-any':
                tail = [('selfrom', 'any', 'x', 'A', e, True), ('return', V('x'))]
            else:
                tail = [('selrel', 'many', 'rs', V('as_'), [('A', 'R2', T('prev'))], e), ('return', V('rs'))]
            attrs = [t[2][2] if t[2][0] == 'field' else t[3][2] for t in ts]
            out.append(dict(family='eqchain', context=context, prog=bool_population() + pre + tail,
                            repeated=len(set(attrs)) < len(attrs), op=op))
    return out


def is_mixed_bare(e):
    """Does the expression print an `and` and an `or` (or one of them and a comparison) with no parentheses between them?"""
    text = A.assemble(A.print_expression(e))[0]
    return '(' not in text and ' or ' in text and ' and ' in text


def family_case(ctx, case):
    """One program of the families boolexpr / rebind, run on both sides."""
    fam = case['family']
    if fam == 'boolexpr':
        prog = bool_program(case['context'], case['tmpl'], case.get('bits'))
        sig = 'c04:boolexpr:%s' % case['context']
    elif fam == 'loopctl':
        prog = case['prog']
        sig = 'c04:loopctl:%s' % case['control']
    elif fam == 'eqchain':
        prog = case['prog']
        sig = 'c04:eqchain:%s' % case['context']
    elif fam == 'strlit':
        # (round 7, C04-14) programs run earlier in the same process that differ from this one in blank space inside the literal only
        for k, lit in enumerate(case.get('before', ())):
            status, _ = check_program(ctx, strlit_program(case['context'], lit, case.get('other')), fam,
                                      sigprefix='c04:strlit:%s' % case['context'], extra_case=dict(case, lit=lit, before=case['before'][:k]))
            if status == 'bad':
                return status, None
            ctx.count('strlit_runs_before_a_near_identical_program')
        prog = strlit_program(case['context'], case['lit'], case.get('other'))
        sig = 'c04:strlit:%s%s' % (case['context'], ':after-near-identical-program' if case.get('before') else '')
    else:
        prog = case['prog']
        sig = 'c04:rebind:%s' % case['container']
    status, _ = check_program(ctx, prog, fam, sigprefix=sig, extra_case=case)
    return status, prog


def rebound_from_empty(case):
    """rebind: does the variable hold an empty instance handle (an empty set) when the nested block is reached, and an
    instance (a non-empty set) behind it -- in the reference?"""
    if not case.get('split'):
        return False
    try:
        n1, n2 = case['split']
        _, _, e1 = run_reference(case['prog'][:n1])
        _, _, e2 = run_reference(case['prog'][:n2])
    except E.OutOfDomain:
        return False
    if e1 is None or e2 is None:
        return False
    v1, v2 = e1.get('Qv'), e2.get('Qv')
    if isinstance(v1, E.Handle) and isinstance(v2, E.Handle):
        return v1.idx is None and v2.idx is not None
    if isinstance(v1, E.InstSet) and isinstance(v2, E.InstSet):
        return not v1.idxs and bool(v2.idxs)
    return False


def family_task(sub, cases):
    for case in cases:
        sub.count('candidates')
        status, prog = family_case(sub, case)
        if status == 'ood':
            sub.count('out_of_domain')
            sub.count(case['family'] + '_out_of_domain')
            continue
        sub.count('transitions')
        sub.count(case['family'] + '_runs')
        sub.distinct('nontrivial', repr(prog))
        if case['family'] == 'boolexpr':
            sub.distinct('boolexpr_templates', repr(case['tmpl']))
            if is_mixed_bare(_fill(case['tmpl'], [V('p'), V('q'), V('r'), V('u')])):
                sub.count('boolexpr_mixed_bare')
        elif case['family'] == 'eqchain':
            if case['repeated']:
                sub.count('eqchain_one_attribute_constrained_twice')
        elif case['family'] == 'loopctl':
            sub.distinct('loopctl_shapes', (case['control'], case['guard'], case['loop']))
            if case['control'] in ('stop', 'return-value', 'return-bare'):
                sub.count('loopctl_action_ended_inside_a_loop')
        elif case['family'] == 'strlit':
            sub.distinct('strlit_literals', case['lit'])
            if '\\' in case['lit'] or any(ord(ch) > 127 for ch in case['lit']):
                sub.count('strlit_backslash_or_non_ascii')
        else:
            sub.distinct('rebind_outer_bindings', case['what'])
            sub.distinct('rebind_containers', case['container'])
            if rebound_from_empty(case):
                sub.count('rebind_empty_then_bound')


# ---------------------------------------------------------------------------
# family rebind: a variable bound in an enclosing block -- to an empty instance handle, an empty set, 0, false, "" or to
# something that is none of these -- is bound again inside a nested block and read in and after it.  (The variable is called
# Qv: the generated probes copy the variables in the order of their names into a limited number of slots.)
# ---------------------------------------------------------------------------

_K99 = B('==', ('field', ('selected',), 'K'), I(99))
_K2 = B('==', ('field', ('selected',), 'K'), I(2))
REBIND_POP = [('create', 'a1', 'A'), ASG(F('a1', 'K'), I(1)), ('create', 'a2', 'A'), ASG(F('a2', 'K'), I(2)), ASG(F('a2', 'N'), I(2)),
              ('create', 'a3', 'A'), ASG(F('a3', 'K'), I(3)), ('create', 'b1', 'B'), ASG(F('b1', 'K'), I(1)),
              ('relate', 'b1', 'a1', 'R1', None, None), ('relate', 'a1', 'a2', 'R2', T('prev'), None),
              ('selfrom', 'many', 'as_', 'A', None, True)]


def rebind_outer():
    """(name, type, statements binding Qv in the enclosing block)"""
    return [
        ('from-where-none', 'A', [('selfrom', 'any', 'Qv', 'A', _K99, True)]),
        ('related-none-prev', 'A', [('selrel', 'one', 'Qv', V('a3'), [('A', 'R2', T('prev'))], None)]),
        ('related-none-next', 'A', [('selrel', 'one', 'Qv', V('a3'), [('A', 'R2', T('next'))], None)]),
        ('related-where-none', 'A', [('selrel', 'any', 'Qv', V('b1'), [('A', 'R1', None)], _K99)]),
        ('copy-of-empty', 'A', [('selfrom', 'any', 'Qw', 'A', _K99, True), ASG(V('Qv'), V('Qw'))]),
        ('from-any', 'A', [('selfrom', 'any', 'Qv', 'A', None, True)]),
        ('related-some', 'A', [('selrel', 'one', 'Qv', V('b1'), [('A', 'R1', None)], None)]),
        ('set-empty', 'set', [('selfrom', 'many', 'Qv', 'A', _K99, True)]),
        ('set-some', 'set', [('selfrom', 'many', 'Qv', 'A', None, True)]),
        ('int-0', 'int', [ASG(V('Qv'), I(0))]), ('int-1', 'int', [ASG(V('Qv'), I(1))]),
        ('bool-false', 'bool', [ASG(V('Qv'), FALSE)]), ('bool-true', 'bool', [ASG(V('Qv'), TRUE)]),
        ('str-empty', 'str', [ASG(V('Qv'), S(''))]), ('str-x', 'str', [ASG(V('Qv'), S('x'))]),
        ('real-0', 'real', [ASG(V('Qv'), ('real', '0.0'))]), ('real-some', 'real', [ASG(V('Qv'), ('real', '1.5'))]),
    ]


def rebind_inner(ty, tier='thorough'):
    """Statement lists binding Qv again (and reading it), by the type of Qv."""
    if ty == 'A':
        full = [[('create', 'Qv', 'A'), ASG(F('Qv', 'K'), I(7))],
                [('selfrom', 'any', 'Qv', 'A', None, True)],
                [('selfrom', 'any', 'Qv', 'A', _K2, True), ASG(F('Qv', 'N'), I(5))],
                [('selrel', 'one', 'Qv', V('a1'), [('A', 'R2', T('prev'))], None)],
                [('selrel', 'one', 'Qv', V('a1'), [('A', 'R2', T('next'))], None)],
                [('selrel', 'any', 'Qv', V('b1'), [('A', 'R1', None)], B('==', ('field', ('selected',), 'K'), I(1)))],
                [ASG(V('Qv'), V('a2'))],
                [('selfrom', 'any', 'Qv', 'A', _K99, True)],
                [('foreach', 'Qv', 'as_', [], True)],
                [('foreach', 'Qv', 'as_', [IF(B('==', F('Qv', 'K'), I(2)), [('break',)])], True), ASG(F('Qv', 'N'), I(6))]]
        return full if tier == 'thorough' else full[:3] + full[4:9]
    if ty == 'set':
        return [[('selfrom', 'many', 'Qv', 'A', None, True)], [('selfrom', 'many', 'Qv', 'A', _K99, True)],
                [('selfrom', 'many', 'Qv', 'A', _K2, True), ASG(V('c_'), U('cardinality', V('Qv')))],
                [('selrel', 'many', 'Qv', V('a1'), [('A', 'R2', T('prev'))], None)]]
    if ty == 'int':
        return [[ASG(V('Qv'), I(5))], [ASG(V('Qv'), B('+', V('Qv'), I(1)))], [ASG(V('Qv'), I(0))]]
    if ty == 'bool':
        return [[ASG(V('Qv'), TRUE)], [ASG(V('Qv'), U('not', V('Qv')))], [ASG(V('Qv'), FALSE)]]
    if ty == 'str':
        return [[ASG(V('Qv'), S('y'))], [ASG(V('Qv'), B('+', V('Qv'), S('y')))], [ASG(V('Qv'), S(''))]]
    if ty == 'real':
        return [[ASG(V('Qv'), ('real', '2.5'))], [ASG(V('Qv'), B('+', V('Qv'), ('real', '0.5')))], [ASG(V('Qv'), ('real', '0.0'))]]
    raise ValueError(ty)


QUICK_CONTAINERS = ('if', 'elif', 'else', 'while-once', 'foreach', 'foreach-if', 'if-empty', 'if-not-empty')


def rebind_containers(ty, tier='thorough'):
    """(name, prefix statements, function body -> statement) -- the nested block(s) the body stands in."""
    out = [
        ('if', [], lambda b: IF(TRUE, b)),
        ('elif', [], lambda b: IF(FALSE, [], [(TRUE, b)])),
        ('else', [], lambda b: IF(FALSE, [], [], b)),
        ('while-once', [ASG(V('k_'), I(0))], lambda b: ('while', B('<', V('k_'), I(1)), [ASG(V('k_'), B('+', V('k_'), I(1)))] + b, True)),
        ('while-twice', [ASG(V('k_'), I(0))], lambda b: ('while', B('<', V('k_'), I(2)), [ASG(V('k_'), B('+', V('k_'), I(1)))] + b, True)),
        ('while-break', [], lambda b: ('while', TRUE, b + [('break',)], True)),
        ('foreach', [], lambda b: ('foreach', 'e_', 'as_', b, True)),
        ('if-if', [], lambda b: IF(TRUE, [IF(TRUE, b)])),
        ('foreach-if', [], lambda b: ('foreach', 'e_', 'as_', [IF(B('==', F('e_', 'K'), I(2)), b)], True)),
        ('else-while', [], lambda b: IF(FALSE, [], [], [('while', TRUE, b + [('break',)], True)])),
    ]
    if ty in ('A', 'set'):
        out += [('if-empty', [], lambda b: IF(U('empty', V('Qv')), b)),
                ('if-not-empty', [], lambda b: IF(U('not_empty', V('Qv')), b)),
                ('elif-empty', [], lambda b: IF(FALSE, [], [(U('empty', V('Qv')), b)]))]
    if tier != 'thorough':
        out = [c for c in out if c[0] in QUICK_CONTAINERS]
    return out


def rebind_after(ty, tier):
    out = [[], [('return', V('Qv'))]]
    if tier == 'thorough':
        if ty in ('A', 'set'):
            out += [[('return', U('empty', V('Qv')))], [('return', U('cardinality', V('Qv')))]]
        if ty == 'A':
            out.append([IF(U('not_empty', V('Qv')), [ASG(F('Qv', 'Name'), S('seen'))])])
    return out


def rebind_cases(tier):
    """Every outer binding x container x inner binding x read after the block; and the same with the enclosing block itself
    nested (the first binding then lives in a block that is not the outermost one).  Over the population REBIND_POP and, for
    selections from instances, over no population at all."""
    out = []

    def add(what, container, prog, split=None):
        out.append(dict(family='rebind', what=what, container=container, prog=prog, split=split))
    for oname, ty, outer in rebind_outer():
        for cname, prefix, wrap in rebind_containers(ty, tier):
            for inner in rebind_inner(ty, tier):
                for after in rebind_after(ty, tier):
                    head = REBIND_POP + prefix + outer
                    add(oname, cname, head + [wrap(list(inner))] + after, [len(head), len(head) + 1])
                # the enclosing block is itself a nested block; the outcome is carried out through an attribute of a1
                if ty == 'A':
                    see = [IF(U('not_empty', V('Qv')), [ASG(F('a1', 'N'), B('+', I(50), F('Qv', 'K')))], [], [ASG(F('a1', 'N'), I(40))])]
                elif ty == 'int':
                    see = [ASG(F('a1', 'N'), V('Qv'))]
                else:
                    continue
                add(oname, 'nested:' + cname, REBIND_POP + prefix + [IF(TRUE, outer + [wrap(list(inner))] + see)])
    # no instance at all: the selection from instances is empty, the nested block creates the instance
    for cname, prefix, wrap in rebind_containers('A', tier):
        for inner in ([('create', 'Qv', 'A'), ASG(F('Qv', 'K'), I(7))], [('create', 'Qv', 'A')], [('create', 'Qv', 'A'), ('create', 'Qv', 'A')]):
            if cname.startswith('foreach'):
                continue
            for after in ([], [('return', V('Qv'))], [ASG(F('Qv', 'N'), I(3))], [('return', F('Qv', 'K'))]):
                head = prefix + [('selfrom', 'any', 'Qv', 'A', None, True)]
                add('from-nothing', cname, head + [wrap(list(inner))] + after, [len(head), len(head) + 1])
    return out


# ---------------------------------------------------------------------------
# family loopctl: control stop / return / break / continue executed inside loop bodies -- directly, inside an if / elif / else
# of the body, in the inner or the outer one of two nested loops, in a loop inside an if -- with observable statements behind
# the statement in the body, behind the inner loop in the outer body, and behind the loop(s): control stop and return end the
# whole action (whatever encloses them), break / continue act on the innermost loop only.
# ---------------------------------------------------------------------------

# (the counters Ci, Cj sort before the other names: the probes copy them first)
LOOPCTL_POP = REBIND_POP + [('create', 'b2', 'B'), ASG(F('b2', 'K'), I(2)), ('selfrom', 'many', 'bs', 'B', None, False), ASG(V('Ci'), I(0)), ASG(V('Cj'), I(0))]


def loopctl_controls():
    return [('stop', ('stop',)), ('return-value', ('return', B('+', V('Ci'), I(70)))), ('return-bare', ('return', None)),
            ('break', ('break',)), ('continue', ('continue',))]


def loopctl_guards(tier):
    """(name, function(condition-holds-in-this-iteration, control statement) -> statements)"""
    out = [('bare', lambda c, x: [IF(c, [x])]),                 # the statement in an if of the loop body
           ('else', lambda c, x: [IF(U('not', c), [ASG(V('Cj'), B('+', V('Cj'), I(1)))], [], [x])]),
           ('elif', lambda c, x: [IF(FALSE, [], [(c, [ASG(V('Cj'), B('+', V('Cj'), I(100)))] + [x])], [ASG(V('Cj'), B('+', V('Cj'), I(1)))])]),
           ('if-if', lambda c, x: [IF(TRUE, [IF(c, [x])])])]
    return out if tier == 'thorough' else out[:3]


def loopctl_loops(tier):
    """(name, function(control statements at the place of the inner body) -> statements).  The counters i (iterations of the
    outer loop) and j, and the attributes N of the instances, record what was executed."""
    inc_i, inc_j = ASG(V('Ci'), B('+', V('Ci'), I(1))), ASG(V('Cj'), B('+', V('Cj'), I(10)))
    wh = lambda body: ('while', B('<', V('Ci'), I(3)), [inc_i] + body + [inc_j], True)
    fe = lambda body: ('foreach', 'e_', 'as_', [ASG(F('e_', 'N'), B('+', F('e_', 'N'), I(1)))] + body + [ASG(F('e_', 'N'), B('+', F('e_', 'N'), I(10)))], True)
    inner_wh = lambda body: [ASG(V('k_'), I(0)), ('while', B('<', V('k_'), I(2)), [ASG(V('k_'), B('+', V('k_'), I(1)))] + body + [inc_j], False),
                             ASG(F('a1', 'N'), B('+', F('a1', 'N'), I(100)))]
    inner_fe = lambda body: [('foreach', 'g_', 'bs', [ASG(F('g_', 'N'), B('+', F('g_', 'N'), I(1)))] + body + [inc_j], True),
                             ASG(F('a1', 'N'), B('+', F('a1', 'N'), I(100)))]
    # condition true in the second iteration of a while over i / for the instance with K == 2 of a for each / of an inner loop
    ci, ce, ck, cg = B('==', V('Ci'), I(2)), B('==', F('e_', 'K'), I(2)), B('==', V('k_'), I(1)), B('==', F('g_', 'K'), I(1))
    out = [
        ('while', ci, lambda b: [wh(b)]),
        ('foreach', ce, lambda b: [fe(b)]),
        ('while-first-iteration', TRUE, lambda b: [wh(b)]),
        ('while-in-while', ck, lambda b: [wh(inner_wh(b))]),
        ('foreach-in-while', cg, lambda b: [wh(inner_fe(b))]),
        ('while-in-foreach', ck, lambda b: [fe(inner_wh(b))]),
        ('foreach-in-foreach', cg, lambda b: [fe(inner_fe(b))]),
        ('outer-of-two', ci, lambda b: [wh(inner_wh([]) + b)]),            # behind a complete inner loop, in the outer body
        ('while-in-if', ci, lambda b: [IF(TRUE, [wh(b), ASG(F('a2', 'N'), I(9))], [], [])]),
        ('foreach-in-else', ce, lambda b: [IF(FALSE, [], [], [fe(b), ASG(F('a2', 'N'), I(9))])]),
    ]
    if tier == 'thorough':
        out += [('foreach-first-iteration', TRUE, lambda b: [fe(b)]),
                ('while-in-while-in-if', ck, lambda b: [IF(TRUE, [wh(inner_wh(b))])]),
                ('third-level', ck, lambda b: [wh([('foreach', 'g_', 'bs', inner_wh(b), True)])])]
    return out


def loopctl_afters():
    """Observable statements behind the loop(s)."""
    return [('attribute', [ASG(F('a3', 'Name'), S('after'))]),
            ('create-relate', [('create', 'b9', 'B'), ASG(F('b9', 'K'), I(9)), ('relate', 'b9', 'a2', 'R1', None, None)]),
            ('delete-unrelate', [('unrelate', 'b1', 'a1', 'R1', None, None), ('delete', 'a3')]),
            ('return', [('return', B('+', B('*', V('Cj'), I(10)), V('Ci')))]),
            ('nothing', [])]


def loopctl_cases(tier):
    out = []
    for xname, x in loopctl_controls():
        for gname, guard in loopctl_guards(tier):
            for lname, cond, loops in loopctl_loops(tier):
                for aname, after in loopctl_afters():
                    if tier != 'thorough' and xname in ('break', 'continue') and aname not in ('return', 'attribute'):
                        continue
                    out.append(dict(family='loopctl', control=xname, guard=gname, loop=lname, after=aname,
                                    prog=LOOPCTL_POP + loops(guard(cond, x)) + after))
    return out


# ---------------------------------------------------------------------------
# family strlit: the value of a string literal is the text between its quotes -- OAL has no escape sequences, a
# backslash, a percent sign, a brace, a tab or a character outside ASCII is a character like any other
# ---------------------------------------------------------------------------

STR_LITERALS = [
    'plain', '', ' ', 'C:\\new\\table', 'a\\\\b', 'a\\b', 'ends with \\', '\\', '\\\\', '\\n', '\\t\\r\\0\\a', '\\x41', 'A', '\\u00e9',
    '\\U0001F600', '\\N{BULLET}', '\\101', '\\\'', 'tab\there', 'caf\u00e9', '\u00e9', '\u65e5\u672c\u8a9e', 'astral \U0001F600',
    '\u2022', '\xff\xfe', '%s %d %%', '{0} {x}', "it's // no /* comment */", '\u00c3\u00a9',
]
STR_CONTEXTS = ['return', 'variable', 'concat', 'attribute', 'where-many', 'where-any', 'where-related', 'if', 'elif', 'while', 'equal']


def strlit_program(context, lit, other=None):
    """The program using the literal in the context (other: a second literal it is compared with)."""
    sel = ('selected',)
    L = S(lit)
    if context == 'return':
        return [('return', L)]
    if context == 'variable':
        return [ASG(V('s'), L), ASG(V('t'), V('s')), ('return', V('t'))]
    if context == 'concat':
        return [ASG(V('s'), B('+', S('<'), L)), ASG(V('s'), B('+', V('s'), L)), ('return', B('+', V('s'), S('>')))]
    if context == 'equal':
        # two literals are equal exactly when their texts are
        M = S(other)
        return [ASG(V('n'), I(0)), ASG(V('s'), L),
                IF(B('==', L, M), [ASG(V('n'), B('+', V('n'), I(1)))]), IF(B('!=', V('s'), M), [ASG(V('n'), B('+', V('n'), I(2)))]),
                IF(B('==', M, V('s')), [ASG(V('n'), B('+', V('n'), I(4)))]), ('return', V('n'))]
    pop = [('create', 'a1', 'A'), ASG(F('a1', 'K'), I(1)), ASG(F('a1', 'Name'), L),
           ('create', 'a2', 'A'), ASG(F('a2', 'K'), I(2)), ASG(F('a2', 'Name'), S('other')),
           ('create', 'a3', 'A'), ASG(F('a3', 'K'), I(3)), ASG(F('a3', 'Name'), B('+', L, S('.'))),
           ('create', 'a4', 'A'), ASG(F('a4', 'K'), I(4)), ASG(F('a4', 'Name'), F('a1', 'Name')),
           ('relate', 'a1', 'a2', 'R2', T('prev'), None), ('relate', 'a2', 'a3', 'R2', T('prev'), None),
           ('relate', 'a3', 'a4', 'R2', T('prev'), None), ('selfrom', 'many', 'as_', 'A', None, True)]
    w = B('==', ('field', sel, 'Name'), L)
    if context == 'attribute':
        return pop + [('return', F('a4', 'Name'))]
    if context == 'where-many':
        return pop + [('selfrom', 'many', 'rs', 'A', w, True), ('return', V('rs'))]
    if context == 'where-any':
        return pop + [('selfrom', 'any', 'x', 'A', B('and', w, B('>', ('field', sel, 'K'), I(1))), True), ('return', V('x'))]
    if context == 'where-related':
        return pop + [('selrel', 'many', 'rs', V('as_'), [('A', 'R2', T('prev'))], B('!=', ('field', sel, 'Name'), L)), ('return', V('rs'))]
    hit = [ASG(V('n'), B('+', B('*', V('n'), I(2)), I(1)))]
    miss = [ASG(V('n'), B('*', V('n'), I(2)))]
    if context == 'if':
        body = [IF(B('==', F('x', 'Name'), L), hit, [], miss)]
    elif context == 'elif':
        body = [IF(B('==', F('x', 'Name'), S('other')), miss, [(B('==', L, F('x', 'Name')), hit)], miss)]
    elif context == 'while':
        # appends the literal to the name until it is the name of a3 (at most twice)
        body = [ASG(V('s'), F('x', 'Name')), ASG(V('k'), I(0)),
                ('while', B('and', B('!=', B('+', V('s'), S('.')), B('+', B('+', L, L), S('.'))), B('<', V('k'), I(2))),
                 [ASG(V('s'), B('+', V('s'), L)), ASG(V('k'), B('+', V('k'), I(1)))], True),
                ASG(V('n'), B('+', B('*', V('n'), I(3)), V('k')))]
    else:
        raise ValueError(context)
    return pop + [ASG(V('n'), I(0)), ('foreach', 'x', 'as_', body, True), ('return', V('n'))]


def strlit_cases(tier):
    out = []
    for lit in STR_LITERALS:
        for c in STR_CONTEXTS[:-1]:
            out.append(dict(family='strlit', context=c, lit=lit))
        for other in STR_LITERALS:
            out.append(dict(family='strlit', context='equal', lit=lit, other=other))
    # literals that differ in the blank space they hold only: every ordered pair (and one triple) as programs of one
    # context run one after the other in one process
    for c in ('return', 'attribute', 'where-many', 'if', 'concat'):
        for a, b in itertools.permutations(NEAR_LITERALS, 2):
            out.append(dict(family='strlit', context=c, lit=b, before=[a]))
        out.append(dict(family='strlit', context=c, lit=NEAR_LITERALS[0], before=list(NEAR_LITERALS[1:3])))
    return out


NEAR_LITERALS = ['x y', 'x  y', 'x\ty', 'x \t y']


DEPTH = {'quick': 2, 'thorough': 3}


def run(ctx):
    depth = DEPTH[ctx.tier]
    seen = {}
    frontier = []
    for setup, focus in zip(SETUPS, SETUP_FOCUS):
        _, ref, env = run_reference(setup)
        k = canon(ref, env)
        seen[k] = setup
        frontier.append((setup, focus))
        status, _ = check_program(ctx, setup, 'setup')
        ctx.require(status == 'ok', 'a setup program is not accepted on both sides (%s)' % status)
    for level in range(depth):
        tasks = [(ctx.tier, depth - level, p, focus) for p, focus in frontier]
        results = ctx.pmap(expand, tasks, chunk=1)
        nxt = []
        for (p, focus), succ in zip(frontier, results):
            for k, s in succ:
                if k not in seen:
                    seen[k] = p + [s]
                    nxt.append((p + [s], focus))
        print('  depth %d: %d prefixes expanded, %d new states, t=%.0fs' % (level + 1, len(frontier), len(nxt), ctx.elapsed()), flush=True)
        frontier = nxt
        if ctx.time_left() < 0:
            ctx.cap('time budget reached after depth %d' % (level + 1))
            break
    cases = anyrel_cases(ctx.tier)
    cases = explorer.rotate(cases, ctx.seed)
    ctx.pmap(anyrel_task, [cases[i:i + 40] for i in range(0, len(cases), 40)])
    fam = explorer.rotate(boolexpr_cases(ctx.tier) + rebind_cases(ctx.tier) + loopctl_cases(ctx.tier) + strlit_cases(ctx.tier) +
                          eqchain_cases(ctx.tier), ctx.seed)
    ctx.pmap(family_task, [fam[i::len(fam) // 25 + 1] for i in range(len(fam) // 25 + 1)])
    ctx.count('states', len(seen) + len(FAN_ORDERS[ctx.tier]) + len(fam))
    longest = max(seen.values(), key=len)
    ctx.sample(dict(program=A.assemble(A.print_program(longest))[0]))
    ctx.sample(dict(program=A.assemble(A.print_program(SETUPS[2] + [menu(*(_env_of(SETUPS[2])), tier='thorough')[-3]]))[0]))
    ctx.require(ctx.n('runs') >= 3000, 'too few interpreter runs (%d)' % ctx.n('runs'))
    ctx.require(ctx.nd('stmt_kinds') >= 30, 'too few statement kinds exercised (%d)' % ctx.nd('stmt_kinds'))
    ctx.require(ctx.n('anyrel_first_related_fails_later_matches') >= 40, 'too few selections where the first related instance '
                'fails the where clause and a later one satisfies it (%d)' % ctx.n('anyrel_first_related_fails_later_matches'))
    ctx.require(ctx.n('anyrel_returning_chains_nonempty') >= 20, 'too few whole selections along chains that come back to instances '
                'they have passed (%d)' % ctx.n('anyrel_returning_chains_nonempty'))
    ctx.require(ctx.n('anyrel_empty') >= 40, 'too few selections along chains where no related instance satisfies the clause (%d)'
                % ctx.n('anyrel_empty'))
    ctx.require(ctx.n('boolexpr_out_of_domain') == 0 and ctx.n('boolexpr_runs') >= 1500,
                'boolexpr family: %d runs, %d programs the reference rejects' % (ctx.n('boolexpr_runs'), ctx.n('boolexpr_out_of_domain')))
    ctx.require(ctx.n('eqchain_out_of_domain') == 0 and ctx.n('eqchain_one_attribute_constrained_twice') >= 300,
                'eqchain family: %d runs constrain one attribute twice, %d programs the reference rejects'
                % (ctx.n('eqchain_one_attribute_constrained_twice'), ctx.n('eqchain_out_of_domain')))
    ctx.require(ctx.n('boolexpr_mixed_bare') >= 150, 'too few runs of expressions mixing and / or without parentheses (%d)'
                % ctx.n('boolexpr_mixed_bare'))
    ctx.require(ctx.n('rebind_runs') >= 1500 and ctx.n('rebind_empty_then_bound') >= 300,
                'rebind family: %d runs, %d of them bind an empty handle / set of the enclosing block to something inside a nested block'
                % (ctx.n('rebind_runs'), ctx.n('rebind_empty_then_bound')))
    ctx.require(ctx.n('loopctl_out_of_domain') == 0 and ctx.n('loopctl_action_ended_inside_a_loop') >= 300,
                'loopctl family: %d runs end the action inside a loop, %d programs the reference rejects'
                % (ctx.n('loopctl_action_ended_inside_a_loop'), ctx.n('loopctl_out_of_domain')))
    ctx.require(ctx.n('strlit_runs_before_a_near_identical_program') >= 60, 'too few programs run right before a program that differs '
                'in blank space inside a string literal only (%d)' % ctx.n('strlit_runs_before_a_near_identical_program'))
    ctx.require(ctx.n('strlit_out_of_domain') == 0 and ctx.n('strlit_backslash_or_non_ascii') >= 600,
                'strlit family: %d runs with a backslash or a non-ASCII character in the literal, %d programs the reference rejects'
                % (ctx.n('strlit_backslash_or_non_ascii'), ctx.n('strlit_out_of_domain')))
    ctx.require(ctx.nd('nontrivial') >= 300, 'too few programs with loops / conditionals / where clauses (%d)' % ctx.nd('nontrivial'))


def _env_of(prog):
    _, ref, env = run_reference(prog)
    return env, ref


def replay(ctx, case):
    if case.get('family') == 'anyrel':
        check_anyrel(ctx, case)
        return
    if case.get('family') in ('boolexpr', 'rebind', 'loopctl', 'strlit', 'eqchain'):
        family_case(ctx, case)
        return
    check_program(ctx, case['prog'], case.get('family', 'seq'))


def coverage(ctx):
    return dict(
        states=ctx.n('states'), transitions=ctx.n('transitions'),
        traces_validated_against_impl=ctx.n('traces'),
        evaluations=ctx.n('runs'), candidates=ctx.n('candidates'), out_of_domain=ctx.n('out_of_domain'),
        distinct_nontrivial=ctx.nd('nontrivial'), statement_kinds=ctx.nd('stmt_kinds'),
        anyrel=dict(runs=ctx.n('anyrel_runs'), no_related_instance_matches=ctx.n('anyrel_empty'), some_match=ctx.n('anyrel_nonempty'),
                    first_related_fails_later_matches=ctx.n('anyrel_first_related_fails_later_matches')),
        rule='breadth-first over statement sequences from five setup programs; every statement of the typed menu extends every '
             'distinct state (reference population + variable environment); candidates the reference rejects as out of domain are '
             'not run; non-trivial = distinct programs whose last statement is a loop, a conditional, or a selection with a where '
             'clause or a relationship chain; plus the anyrel family: every (link order, chain, where clause, any|one, observation '
             'variant) combination over the fan-out population; plus the boolexpr family: every (template, context[, valuation]) '
             'case, the rebind family: every (outer binding, container, inner binding, read after the block) case, and the loopctl '
             'family: every (control statement, guard, loop shape, statements behind the loops) case, and the strlit family: every '
             '(literal, context) case and every ordered pair of literals',
        bounds=dict(depth=DEPTH[ctx.tier], setups=len(SETUPS), pools=dict(A=3, B=2, C=1, L=2), setup_menus=SETUP_FOCUS,
                    anyrel=dict(link_orders=FAN_ORDERS[ctx.tier], chains=len(ANYREL_CHAINS),
                                where_clauses=len(anyrel_wheres(ANYREL_CHAINS[0][1], ctx.tier)),
                                population='3 A, 3 B, 2 C, 2 L; R1 a1<-b1,b2,b3; R3 a1-c1-b1, a1-c2-b3; R4 a1-l1->a2, a1-l2->a3; R2 a1,a2,a3')),
        boolexpr=dict(runs=ctx.n('boolexpr_runs'), templates=ctx.nd('boolexpr_templates'),
                      runs_mixing_and_or_without_parentheses=ctx.n('boolexpr_mixed_bare'), contexts=['return'] + BOOL_CONTEXTS,
                      bounds=dict(leaves=3 if ctx.quick else 4, operators=BOOL_ALL,
                                  templates='three leaves: every tree over and/or with not before every subset of leaves and inner nodes, '
                                            'every tree over and/or/==/!= without not; four leaves (thorough): every tree over and/or, at most '
                                            'one not',
                                  valuations='all 2^leaves: as literal-valued variables (return), as eight instances of A (other contexts)',
                                  quick='contexts other than return / where-many use the and/or trees with at most one not')),
        rebind=dict(runs=ctx.n('rebind_runs'), out_of_domain=ctx.n('rebind_out_of_domain'),
                    outer_bindings=ctx.nd('rebind_outer_bindings'), containers=ctx.nd('rebind_containers'),
                    empty_in_the_enclosing_block_then_bound_in_the_nested_block=ctx.n('rebind_empty_then_bound'),
                    bounds=dict(outer=[o[0] for o in rebind_outer()] + ['from-nothing'],
                                containers=[c[0] for c in rebind_containers('A', ctx.tier)], nesting='the container, and the container '
                                'inside an if block that also holds the first binding', population='3 A, 1 B (R1 b1-a1, R2 a1-a2); or none')),
        loopctl=dict(runs=ctx.n('loopctl_runs'), shapes=ctx.nd('loopctl_shapes'),
                     runs_ending_the_action_inside_a_loop=ctx.n('loopctl_action_ended_inside_a_loop'),
                     bounds=dict(controls=[c[0] for c in loopctl_controls()], guards=[g[0] for g in loopctl_guards(ctx.tier)],
                                 loops=[l[0] for l in loopctl_loops(ctx.tier)], behind_the_loops=[a[0] for a in loopctl_afters()],
                                 nesting='two loop levels (thorough: three), loops inside if / else',
                                 population='3 A, 2 B (R1 b1-a1, R2 a1-a2)')),
        strlit=dict(runs=ctx.n('strlit_runs'), literals=ctx.nd('strlit_literals'),
                    runs_with_a_backslash_or_a_non_ascii_character=ctx.n('strlit_backslash_or_non_ascii'),
                    bounds=dict(literals=STR_LITERALS, contexts=STR_CONTEXTS, pairs='every ordered pair of the literals (context equal)',
                                population='4 A in a chain along R2, names: the literal, "other", the literal + ".", a copy of the first')),
        exhaustive=not ctx.caps_hit,
    )
