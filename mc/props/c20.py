'''
C20 -- XSD generation mirrors the component's classes and data types.

E1: breadth-first search over edit scripts (rename / retype / add attribute, add / reorder
enumerators by R56 chain and, independently, by row order, add user types and structured
data types, move classes and data types between components and packages, rename classes)
applied to the rows of the real model tests/resources/Simple_Model.xtuml (plain, and with a
second component added) and of the synthesised bpsynth.rich_diagram, packaging_diagram and
structs_diagram; E3: every order of the rows.

Reference: mc.refs.bpsynth.expected_xsd computed from the abstract diagram that is extracted
from the rows by ids (independent of bridgepoint.gen_xsd_schema and ooaofooa).  In every state
and for every component: the tree of gen_xsd_schema.build_schema (serialised and re-parsed:
well-formed XML), the prettified text main writes and -- in shallow states -- the file written
by gen_xsd_schema.main must declare exactly the expected simple types (base, enumerators in
R56 order), one element per contained class and the expected (name, type) attributes.
'''
import itertools
import json
import os

from mc import core, explorer
from mc.refs import bpsynth as bp

NEEDS_BRIDGEPOINT = True
BUDGET_S = {'quick': 3600, 'thorough': 14400}
ASSUMPTIONS = [
    'models: Simple_Model.xtuml (all rows, file order); "simple2" = the same plus a sibling component "Other" with a package, '
    'a component nested in the package "Classes" and a package reference (EP_PKGREF) from "Classes" to the package of '
    '"Other"; the synthesised bpsynth.rich_diagram (two components, nested packages, global elements, user types over core / '
    'enumeration / user types, derived and unsupported attributes, referentials through two levels); and '
    'bpsynth.packaging_diagram (component > package > package > nested component > package > class, packages of a sibling '
    'component and of the global scope referred to from inside the component, each with a class and a data type); and '
    'bpsynth.structs_diagram (structured data types S_SDT with S_MBR members in the component, global and in a sibling component, '
    'members of core / enumeration / user / structured type, user types over a structure and over a user type over a structure, '
    'attributes typed by each, a referential attribute referring to a structure-typed identifier)',
    'scope: an element is in a component when the component is reached from its package / component through parents '
    '(R8000, R8001, R8003) and through packages that refer to a package on the way (R1402); chains of references '
    '(a referring package that is itself only referred to) are not generated',
    'edit scripts of length <= 2 (quick) / 3 (thorough) on Simple_Model, <= 1 / 2 on the rich diagram and <= 1 on the packaging and '
    'structs diagrams; values per site from '
    'small palettes rotated by VERIF_SEED',
    'supported types: the core types boolean, integer, real, string, unique_id, enumerations, and user types over them; '
    'attributes of any other type (structured data types, user types that unwrap to one, instance references, date over '
    'inst<Mapping>, ...) and derived attributes are not declared; a structured data type yields no declaration of its own (the '
    'statement names simple types only); '
    'a user type is declared when its base is a supported core type, an enumeration or a user type',
    'the order of the xs:attribute declarations inside a class, of the class elements and of the simple types is not '
    'compared (the statement fixes only the order of enumerators)',
    'data types are in scope when global (in no component) or contained in the component; an attribute whose type lives in '
    'another component keeps the type name, the simple type is declared only where it is in scope',
    'gen_xsd_schema.main (0.25 s per call for parsing the ooaofooa schema) runs for every component in every state of depth '
    '<= 1 (thorough: <= 2); in every state the same serialisation steps (ElementTree.tostring + prettify) run on the tree '
    'returned by build_schema',
    'live edits: on the loaded start model of the packaging diagram, of the structs diagram and of simple2 (thorough: also rich '
    'and Simple_Model) every edit of the menu that has an API-level form (rename / retype / add attribute, move class or data '
    'type, add enumerator, toggle derived, rename class) is applied with setattr / relate / unrelate / new / delete between two generations on '
    'the SAME metamodel object; the second generation must equal expected_xsd of the edited diagram',
    'row orders: reversal of the whole file in every state; every rotation of the file and every permutation of every '
    'group of <= 6 rows of the tables the generator reads in the initial states; permutations of the groups of the edited '
    'tables in every single-edit state (groups of <= 3 rows in quick); the diagram layout rows (GD_*, DIM_*) are left out of '
    'the group permutation runs',
]

PALETTES = [
    dict(attr_names=['Renamed', 'Alt'], new_attr=['Extra', 'More'], enums=['E9', 'E0'], udt=['My_Type', 'My_Other'], kl=['Zed', 'Q2'], struct=['Coords']),
    dict(attr_names=['Value_9', 'x'], new_attr=['added', 'Plus'], enums=['Zero', 'AAA'], udt=['U1', 'U2'], kl=['KL9', 'K'], struct=['S9']),
    dict(attr_names=['Table', 'Name2'], new_attr=['Index', 'N'], enums=['From', 'To'], udt=['Values', 'T'], kl=['Other_K', 'O'], struct=['Record']),
    dict(attr_names=['ident', 'From'], new_attr=['a1', 'b2'], enums=['e', 'f'], udt=['u', 'v'], kl=['k', 'l'], struct=['s']),
]
TYPES_QUICK = ['string', 'My_Enum', 'My_Integer', 'inst_ref<Object>', 'Colour', 'Price', 'date', 'Position', 'Location']
TYPES_THOROUGH = ['boolean', 'integer', 'real', 'string', 'unique_id', 'timestamp', 'date', 'inst_ref<Object>',
                  'inst_ref<Timer>', 'void', 'My_Enum', 'My_Integer', 'Colour', 'Money', 'Price', 'Shade', 'Hidden',
                  'GlobalCount', 'Position', 'Location', 'Place', 'Segment', 'GPoint', 'HiddenStruct']
XSD_TABLES = ('O_OBJ', 'O_ATTR', 'O_RATTR', 'O_BATTR', 'O_DBATTR', 'O_NBATTR', 'S_DT', 'S_EDT', 'S_UDT', 'S_ENUM', 'EP_PKG',
              'C_C', 'S_SDT', 'S_MBR')
TOUCHED = {
    'rename_attr': ['O_ATTR'], 'retype_attr': ['O_ATTR', 'S_DT', 'S_UDT'], 'add_attr': ['O_ATTR', 'O_BATTR', 'O_NBATTR'],
    'set_derived': ['O_BATTR', 'O_NBATTR', 'O_DBATTR', 'O_ATTR'], 'enum_add': ['S_ENUM'], 'enum_move': ['S_ENUM'],
    'row_move': ['S_ENUM'], 'add_udt': ['S_DT', 'S_UDT'], 'move_elem': ['O_OBJ', 'EP_PKG', 'C_C', 'S_DT'],
    'rename_class': ['O_OBJ'], 'renumber_class': ['O_OBJ'], 'rename_comp': ['C_C'], 'add_struct': ['S_DT', 'S_SDT', 'S_MBR'],
}
# (base, palette level, edit depth, main() up to depth, reversed file up to depth, permutations: max group in single-edit
#  states; 0 = initial state only, None = none) -- cheapest stage first
PLAN = {
    'quick': [('pack', 'lean', 1, 0, 99, None), ('structs', 'quick', 1, 0, 99, None), ('simple2', 'quick', 1, 1, 99, 0), ('rich', 'quick', 1, 0, 99, 0),
              ('simple', 'quick', 2, 1, 99, 3)],
    'thorough': [('pack', 'quick', 1, 1, 99, 4), ('structs', 'full', 1, 1, 99, 4), ('simple2', 'quick', 2, 1, 99, 4), ('rich', 'lean', 2, 1, 99, 4), ('simple', 'lean', 3, 1, 2, 6),
                 ('simple', 'full', 2, 0, 99, None)],
}
# start models on which every API-level ("live") edit of the menu is applied to the loaded metamodel
LIVE = {'quick': [('pack', 'lean'), ('structs', 'quick'), ('simple2', 'quick')],
        'thorough': [('pack', 'quick'), ('structs', 'full'), ('simple2', 'quick'), ('rich', 'lean'), ('simple', 'full')]}
# quick tier: on these start models only the attribute-level live edits run (the packaging-level ones run on the others)
LIVE_ONLY = {'quick': {'structs': ('retype_attr', 'add_attr', 'set_derived', 'rename_attr')}, 'thorough': {}}
TYPES_LEAN = ['My_Enum', 'inst_ref<Object>', 'Price']


class XsdModel(bp.EditModel):
    '''level: 'lean' | 'quick' | 'full' -- size of the value palettes per edit site.'''

    def __init__(self, base, tier='quick', seed=0, main_depth=1, level=None, reverse_depth=99):
        bp.EditModel.__init__(self, base, tier, seed)
        self.palette = PALETTES[seed % len(PALETTES)]
        self.level = level or 'quick'
        self.full = self.level == 'full'
        self.lean = self.level == 'lean'
        self.main_depth = main_depth
        self.reverse_depth = reverse_depth

    def case(self, hist, op):
        return dict(base=self.name, hist=hist, op=op, tier=self.tier, seed=self.seed, level=self.level)

    # -- menu -------------------------------------------------------------------
    def menu(self, w):
        d = w.d
        P = self.palette
        k = None if self.full else 1
        ops = []
        tnames = TYPES_THOROUGH if self.full else TYPES_LEAN if self.lean else TYPES_QUICK
        if not self.lean:
            tnames = list(tnames) + P['struct'][:1]        # (the structured data type an add_struct edit created)
        # structured data types and user types that unwrap to one
        structs = sorted(t.id for t in d.types.values() if t.kind == 'struct')
        over_struct = sorted(t.id for t in d.types.values() if t.kind == 'user' and unwraps_to_struct(d, t.id))
        types = [t.id for n in tnames for t in sorted(d.types.values(), key=lambda t: t.id) if t.name == n]
        homes = self.homes(d)
        for c in d.classes:
            taken = set(a.name for a in c.attrs)
            n = len(c.attrs)
            for i, a in enumerate(c.attrs):
                if self.lean and i not in (0, 1, n - 1):
                    continue            # lean palette: first two and last attribute of every class
                for nm in P['attr_names'][:k]:
                    if nm not in taken:
                        ops.append(['rename_attr', c.id, a.id, nm])
                if a.kind != 'ref':
                    for t in types:
                        if t != a.dt:
                            ops.append(['retype_attr', c.id, a.id, t])
                    ops.append(['set_derived', c.id, a.id, a.kind != 'derived'])
            for nm in P['new_attr'][:1]:
                if nm in taken:
                    continue
                for pos in (sorted(set([0, n])) if self.full else [n]):
                    combos = [('integer', 'derived'), ('inst_ref<Object>', 'base')]
                    if self.full:
                        combos += [('string', 'base'), ('date', 'base'), ('My_Integer', 'derived')]
                    for tn, kind in combos:
                        hits = [t for t in d.types.values() if t.name == tn]
                        if hits:
                            ops.append(['add_attr', c.id, pos, nm, hits[0].id, kind])
                    enums = sorted(t.id for t in d.types.values() if t.kind == 'enum')
                    users = sorted(t.id for t in d.types.values() if t.kind == 'user' and d.xsd_base_type(t.id))
                    for t in ([] if self.lean else enums[:1]) + (users[-1:] if self.full else []):
                        ops.append(['add_attr', c.id, pos, nm, t, 'base'])
                    for t in [] if self.lean else structs[:1] + over_struct[:1]:
                        ops.append(['add_attr', c.id, pos, nm, t, 'base'])
            for h in homes:
                if h != c.home:
                    ops.append(['move_elem', 'class', c.id, h])
            for kl in P['kl'][:k]:
                if kl not in [x.kl for x in d.classes]:
                    ops.append(['rename_class', c.id, kl])
            # (round 12, C20-21) the number of another class: class numbers need not be unique (each package numbers from 1)
            others = [x for x in d.classes if x.id != c.id and x.numb != c.numb]
            if others and [x.numb for x in d.classes].count(c.numb) == 1 and not self.lean:
                ops.append(['renumber_class', c.id, others[0].numb])
        predefined = bp.predefined_types()
        for t in sorted(d.types.values(), key=lambda t: t.id):
            if t.id in predefined:
                continue
            if t.kind == 'enum':
                n = len(t.enums)
                taken = [e[1] for e in t.enums]
                for nm in P['enums'][:k]:
                    if nm in taken:
                        continue
                    for pos in (range(n + 1) if self.full else sorted(set([0, n]))):
                        for where in (('first', 'last') if self.full else ('last',)):
                            ops.append(['enum_add', t.id, pos, nm, where])
                for i, e in enumerate(t.enums):
                    for j in range(n):
                        if j != i:
                            ops.append(['enum_move', t.id, e[0], j])
            for h in homes:
                if h != t.home:
                    ops.append(['move_elem', 'type', t.id, h])
        nrows = len([r for r in w.rows if r.t == 'S_ENUM' and not r.g])
        for i in range(nrows):
            for j in range(nrows):
                if i != j and (self.full or abs(i - j) == 1 or (i, j) in ((0, nrows - 1), (nrows - 1, 0))):
                    ops.append(['row_move', 'S_ENUM', i, j])
        taken = set(t.name for t in d.types.values())
        bases = [d.type_named('integer').id]
        bases += sorted(t.id for t in d.types.values() if t.kind == 'enum')[:1]
        bases += sorted(t.id for t in d.types.values() if t.kind == 'user' and t.id not in predefined)[:1]
        if self.full:
            bases += [d.type_named(n).id for n in ('inst_ref<Object>', 'string', 'unique_id', 'date', 'timestamp')]
        if self.lean:
            bases = bases[1:]
        else:
            bases += structs[:1] + over_struct[:1]
        for nm in P['udt'][:1]:
            if nm in taken:
                continue
            for b in bases:
                for h in (homes[:2] if self.lean else homes):
                    ops.append(['add_udt', nm, b, h])
        # (round 11, C20-20) a second data type named like one that exists already, in another place: data types are told
        # apart by what they are, not by their names -- both are declared wherever both are in scope
        if True:
            shadowed = sorted(t.id for t in d.types.values() if t.kind == 'enum' and t.id not in predefined)[:1]
            shadowed += sorted(t.id for t in d.types.values() if t.kind == 'user' and t.id not in predefined)[:1]
            for tid in shadowed:
                t = d.types[tid]
                if [x.name for x in d.types.values()].count(t.name) > 1:
                    continue
                for h in [x for x in homes if x != t.home][:(None if self.full else 2)]:
                    ops.append(['add_udt', t.name, d.type_named('real').id, h])
        if not self.lean:
            # a structured data type with a core-typed and an enumeration-typed (else integer) member
            where = homes[:2] if (self.full or self.name == 'structs') else (homes[2:3] or homes[:1])
            second = sorted(t.id for t in d.types.values() if t.kind == 'enum')[:1] or [d.type_named('integer').id]
            for nm in P['struct'][:1]:
                if nm not in taken:
                    for h in where:
                        ops.append(['add_struct', nm, [['x', d.type_named('real').id], ['k', second[0]]], h])
        if self.full:
            for c in sorted(d.conts.values(), key=lambda c: c.id):
                if c.kind == 'comp' and 'Renamed_Comp' not in [x.name for x in d.conts.values()]:
                    ops.append(['rename_comp', c.id, 'Renamed_Comp'])
        return ops

    def homes(self, d):
        if self.full or self.name == 'pack':
            return [None] + sorted(d.conts)
        tops = sorted(c.id for c in d.conts.values() if c.kind == 'pkg' and c.parent is None)
        comps = sorted(c.id for c in d.conts.values() if c.kind == 'comp')
        inner = sorted(c.id for c in d.conts.values() if c.kind == 'pkg' and c.parent in comps)
        nested = sorted(c.id for c in d.conts.values() if c.kind == 'pkg' and c.parent in inner)
        out = tops[:1] + comps[:1] + inner[-1:] + nested[:1]
        if self.lean:
            out = tops[:1] + inner[-1:]
        for c in comps[1:2]:
            sub = [x for x in inner if d.conts[x].parent == c]
            out += sub[:1] or [c]
        for h in bp.special_homes(d):       # packages of nested components, referenced packages
            if h not in out:
                out.append(h)
        return out

    def check(self, ctx, w, hist, routes=None, perm=None, live=None):
        check_state(ctx, self, w, hist, routes, perm, live)


def unwraps_to_struct(d, dt_id, depth=0):
    t = d.types.get(dt_id)
    if t is None or depth > 16:
        return False
    if t.kind == 'user':
        return unwraps_to_struct(d, t.base, depth + 1)
    return t.kind == 'struct'


def components(d):
    return [c for c in sorted(d.conts.values(), key=lambda c: c.id) if c.kind == 'comp']


def tmpfile(tag):
    from mc import bootstrap
    return os.path.join(bootstrap.tmpdir(), 'c20-%d-%s' % (os.getpid(), tag))


def allowed_change(op, dp, dc):
    name = op[0]
    out = set()
    if name in ('rename_attr', 'add_attr', 'set_derived'):
        out.add(('class', dc.cls(op[1]).kl))
    elif name == 'retype_attr':
        for c in dc.classes:
            for a in c.attrs:
                bc, b = dc.base_attr(c.id, a.id)
                if (bc.id, b.id) == (op[1], op[2]):
                    out.add(('class', c.kl))
    elif name in ('enum_add', 'enum_move'):
        out.add(('type', dc.types[op[1]].name))
    elif name == 'add_udt':
        out.add(('type', op[1]))
    elif name == 'add_struct':
        pass                    # a structured data type is not declared: nothing may change
    elif name == 'move_elem':
        if op[1] == 'class':
            out.add(('class', dc.cls(op[2]).kl))
        elif op[1] == 'type':
            out.add(('type', dc.types[op[2]].name))
    elif name == 'rename_class':
        out.add(('class', dp.cls(op[1]).kl))
        out.add(('class', dc.cls(op[1]).kl))
    elif name == 'renumber_class':
        pass                    # the number of a class shows nowhere in the schema
    elif name == 'rename_comp':
        out.add(('component',))
    return out


def check_state(ctx, model, w, hist, routes=None, perm=None, live=None):
    '''
    Compare every route of the generator with expected_xsd in the state *w* reached by *hist*.
    perm: rows already permuted by the caller (build route only).  live: an edit that is applied to the LOADED
    metamodel through the xtuml API between two generations on the same metamodel object.
    '''
    import xml.etree.ElementTree as ET
    from bridgepoint import gen_xsd_schema
    d = w.d
    depth = model.depth_of(hist)
    deep = routes == 'all' or depth <= model.main_depth
    text = w.text()
    key = core.h64(text)
    ctx.distinct('inputs', key)
    if hist or perm is not None or model.base != 'simple':
        ctx.distinct('nontrivial_inputs', key)        # anything but the unmodified Simple_Model.xtuml
    comps = components(d)
    ctx.count('states_checked')
    if any(t.kind == 'struct' for t in d.types.values()):
        ctx.count('states_with_structured_type')
        if any(a.kind != 'ref' and unwraps_to_struct(d, a.dt) for c in d.classes for a in c.attrs):
            ctx.count('states_with_structure_typed_attribute')
    added = [i for i, op in enumerate(hist) if op[0] == 'add_struct']
    if added and any((op[0] == 'add_attr' and unwraps_to_struct(d, op[4])) or (op[0] == 'retype_attr' and unwraps_to_struct(d, op[3]))
                     for op in hist[added[0] + 1:]):
        ctx.count('struct_after_add')
    expected = dict((c.id, bp.expected_xsd(d, c.id)) for c in comps)

    def bad(route, comp, fam, kind, msg, exp=None, obs=None):
        case = dict(base=model.name, hist=hist, tier=model.tier, seed=model.seed, level=model.level,
                    op=['probe', route, comp.name], perm=perm, live=live)
        ctx.violation('c20:%s:%s:%s' % (route, fam, kind), case,
                      '%s after %s, component %s, route %s: %s' % (model.name, json.dumps(hist), comp.name, route, msg),
                      exp, obs, unit_test=unit_test(model, w, comp.name, route, live))

    def compare(route, comp, obs):
        ctx.count('evaluations')
        diffs = bp.diff_xsd(expected[comp.id], obs)
        for fam, kind, key, e, o in diffs[:4]:
            bad(route, comp, fam, kind, '%s %s: expected %r, observed %r' % (fam, key, e, o), e, o)
        return not diffs

    def guarded(route, comp, fn):
        try:
            return fn()
        except ET.ParseError as e:
            ctx.count('evaluations')
            bad(route, comp, 'xml', 'malformed', 'output is not well-formed XML: %s' % e, 'well-formed XML', str(e))
        except Exception as e:
            ctx.count('evaluations')
            bad(route, comp, 'exception', type(e).__name__, 'raised %s: %s' % (type(e).__name__, e), 'a schema',
                '%s: %s' % (type(e).__name__, e))
        return None

    def build_all(txt, route, pretty, mm=None):
        out = {}
        if not comps:
            return out
        if mm is None:
            mm = guarded(route, comps[0], lambda: bp.load_model(txt).build_metamodel())
        if mm is None:
            return out
        for comp in comps:
            def one():
                c_c = [x for x in mm.select_many('C_C') if x.Id == comp.id][0]
                tree = gen_xsd_schema.build_schema(mm, c_c)
                xml = ET.tostring(tree, 'utf-8')
                return xml, bp.parse_xsd(ET.fromstring(xml))
            res = guarded(route, comp, one)
            if res is None:
                continue
            out[comp.id] = res[1]
            if pretty:
                def two():
                    return bp.parse_xsd(ET.fromstring(gen_xsd_schema.prettify(res[0])))
                obs2 = guarded('pretty', comp, two)
                if obs2 is not None:
                    ctx.count('traces')
                    compare('pretty', comp, obs2)
        return out

    if live is not None:
        # generate, edit the loaded metamodel through the xtuml API, generate again on the same object
        w2 = w.clone()
        w2.apply(live)
        mm = guarded('live', comps[0], lambda: bp.load_model(text).build_metamodel()) if comps else None
        if mm is None:
            return
        built = build_all(None, 'live-before', False, mm=mm)
        for comp in comps:
            if comp.id in built:
                ctx.count('traces')
                compare('live-before', comp, built[comp.id])
        bp.live_apply(mm, d, w2.d, live)
        if bp.extract(bp.tables_of_metamodel(mm)) != w2.d:
            raise core.HarnessError('live edit %r after %r does not give the population of the mirrored diagram' % (live, hist))
        comps[:] = components(w2.d)
        expected.clear()
        expected.update((c.id, bp.expected_xsd(w2.d, c.id)) for c in comps)
        built = build_all(None, 'live', False, mm=mm)
        for comp in comps:
            if comp.id in built:
                ctx.count('traces')
                ctx.count('live_runs')
                compare('live', comp, built[comp.id])
        ctx.count('live:' + live[0])
        return

    if perm is not None:
        built = build_all(text, 'roworder', False)
        for comp in comps:
            if comp.id in built:
                ctx.count('traces')
                compare('roworder', comp, built[comp.id])
        return

    built = build_all(text, 'build', True)
    ok = True
    for comp in comps:
        if comp.id not in built:
            ok = False
            continue
        obs = built[comp.id]
        ctx.count('traces')
        ctx.distinct('outcomes', json.dumps([obs['name'], obs['types'], sorted(obs['classes'].items())], default=repr))
        if not compare('build', comp, obs):
            ok = False

    if depth > 0 and ok:
        parent = model.build(hist[:-1])
        allowed = allowed_change(hist[-1], parent.d, d)
        for comp in comps:
            if comp.id not in parent.d.conts or comp.id not in built:
                continue
            before = bp.expected_xsd(parent.d, comp.id)
            changed = bp.changed_xsd_items(before, built[comp.id])
            ctx.count('locality_checks')
            if changed:
                ctx.count('locality_nonempty')
            if not changed <= allowed:
                ctx.count('evaluations')
                bad('build', comp, 'locality', hist[-1][0],
                    'edit %s changed %s, outside %s' % (hist[-1], sorted(changed - allowed), sorted(allowed)),
                    sorted(allowed), sorted(changed))

    built_rev = {}
    if routes == 'all' or depth <= model.reverse_depth:
        built_rev = build_all(bp.render(bp.reversed_rows(w.rows)), 'reversed', False)
    for comp in comps:
        if comp.id in built_rev:
            ctx.count('traces')
            ctx.count('reversed_runs')
            compare('reversed', comp, built_rev[comp.id])

    if deep:
        src = tmpfile('model.xtuml')
        with open(src, 'w') as f:
            f.write(text)
        for comp in comps:
            out = tmpfile('main.xsd')

            def main():
                if os.path.exists(out):
                    os.remove(out)
                try:
                    gen_xsd_schema.main(['-c', comp.name, '-o', out, src])
                except SystemExit as e:
                    raise RuntimeError('gen_xsd_schema.main exited with %r' % (e.code,))
                return bp.parse_xsd(ET.parse(out).getroot())
            obs = guarded('main', comp, main)
            if obs is not None:
                ctx.count('traces')
                ctx.count('main_runs')
                compare('main', comp, obs)


def unit_test(model, w, comp_name, route, live=None):
    if live is not None:
        lines = bp.snippet_model(model.base, w)
        lines += ['import xtuml',
                  'import xml.etree.ElementTree as ET',
                  'from bridgepoint import ooaofooa, gen_xsd_schema',
                  'l = ooaofooa.ModelLoader()',
                  'l.input(text)',
                  'm = l.build_metamodel()',
                  'c_c = lambda: m.select_any("C_C", lambda s: s.Name == %r)' % comp_name,
                  'for c in m.select_many("C_C"):',
                  '    gen_xsd_schema.build_schema(m, c)          # first generation, every component',
                  '# edit of the loaded metamodel: %r' % (live,)]
        lines += bp.live_snippet(w.d, live)
        lines += ['print(ET.tostring(gen_xsd_schema.build_schema(m, c_c())).decode())   # second generation, same metamodel',
                  '# compare the declarations with the expected value recorded in this replay file']
        return '\n'.join(lines)
    if route == 'reversed':
        lines = ['text = %r    # the INSERT statements of the model in reverse order' % bp.render(bp.reversed_rows(w.rows))]
    else:
        lines = bp.snippet_model(model.base, w)
    lines += ['import tempfile, os',
              'from bridgepoint import gen_xsd_schema',
              'd = tempfile.mkdtemp()',
              "src, out = os.path.join(d, 'm.xtuml'), os.path.join(d, 'm.xsd')",
              "open(src, 'w').write(text)",
              "gen_xsd_schema.main(['-c', %r, '-o', out, src])" % comp_name,
              'print(open(out).read())',
              '# compare the declarations with the expected value recorded in this replay file']
    return '\n'.join(lines)


# ---------------------------------------------------------------------------
# row-order tasks
# ---------------------------------------------------------------------------

def perm_tasks(ctx, model, max_group_initial, max_group_edit):
    tasks = []
    h0 = list(model.prefix)
    w0 = model.build(h0)
    states = [(h0, XSD_TABLES)]
    for op in model.menu(w0) if max_group_edit else []:
        states.append((h0 + [op], TOUCHED.get(op[0])))
    for hist, tables in states:
        w = model.build(hist)
        groups = bp.row_groups(w.rows, tables, max_group_initial if hist == h0 else max_group_edit)
        for key, pos in groups:
            perms = [p for p in itertools.permutations(range(len(pos))) if list(p) != list(range(len(pos)))]
            perms = explorer.rotate(perms, ctx.seed)
            for i in range(0, len(perms), 24):
                tasks.append(dict(base=model.name, level=model.level, hist=hist, kind='group', label=repr(key), pos=pos,
                                  perms=[list(p) for p in perms[i:i + 24]]))
    n = len([r for r in w0.rows if not r.g])
    ks = list(range(1, n))
    for i in range(0, len(ks), 12):
        tasks.append(dict(base=model.name, level=model.level, hist=h0, kind='rotate', label='rotation', pos=[],
                          perms=ks[i:i + 12]))
    return tasks


def permute(w, perm):
    if perm['kind'] == 'rotate':
        rows = bp.rotated_rows(w.rows, perm['perm'])
    else:
        rows = bp.without_graphics(bp.permuted(w.rows, perm['pos'], perm['perm']))
    return bp.World(rows, w.d, w.fresh)


def live_tasks(model):
    '''One task per edit of the menu that has an API-level form, applied to the loaded start model.'''
    h0 = list(model.prefix)
    only = LIVE_ONLY.get(model.tier, {}).get(model.name)
    ops = [op for op in model.menu(model.build(h0)) if bp.live_supported(op, bp.LIVE_KINDS_ATTR) and (only is None or op[0] in only)]
    return [dict(base=model.name, level=model.level, hist=h0, live=op) for op in ops]


def run_live_task(sub, task):
    model = XsdModel(task['base'], sub.tier, sub.seed, level=task['level'])
    explorer.guarded(sub, model, task['hist'], ['live', task['live']],
                     lambda: check_state(sub, model, model.build(task['hist']), task['hist'], live=task['live']))
    return None


def run_perm_task(sub, task):
    model = XsdModel(task['base'], sub.tier, sub.seed, level=task['level'])
    w = model.build(task['hist'])
    for p in task['perms']:
        perm = dict(kind=task['kind'], pos=task['pos'], perm=p)
        sub.count('permutations_run')
        sub.count('perm:' + task['kind'])
        explorer.guarded(sub, model, task['hist'], ['perm', task['kind'], task['pos'], p],
                         lambda: check_state(sub, model, permute(w, perm), task['hist'], perm=perm))
    return None


# ---------------------------------------------------------------------------
# entry points
# ---------------------------------------------------------------------------

def run(ctx):
    problems = bp.selftest()
    if problems:
        raise core.HarnessError('bpsynth self-test failed: ' + '; '.join(problems))
    bp.load_model('')
    for b in ('simple', 'rich', 'pack', 'structs'):
        bp.base_world(b)
    bp.prefix_of('simple2')
    total = 0
    for base, level, depth, main_depth, reverse_depth, perm_edit in PLAN[ctx.tier]:
        model = XsdModel(base, ctx.tier, ctx.seed, main_depth=main_depth, level=level, reverse_depth=reverse_depth)
        label = '%s/%s' % (base, level)
        w0 = model.build(list(model.prefix))
        err = bp.selfcheck_world(w0) or '; '.join(w0.d.check())
        ctx.require(not err, 'base model %s: %s' % (base, err))
        loaded = bp.extract(bp.tables_of_metamodel(bp.load_model(w0.text()).build_metamodel()))
        ctx.require(loaded == w0.d, 'base model %s: the loaded ooaofooa population is not what the rows say' % base)
        res = explorer.bfs(ctx, model, max_depth=depth, chunk=2, label=label)
        ctx.caps_hit[:] = [c for c in ctx.caps_hit if 'depth bound' not in c]      # the depth bound is the stated bound
        total += res['states']
        nmenu = len(model.menu(w0))
        print('  %s: states=%d depth=%d menu=%d' % (label, res['states'], res['depth'], nmenu))
        hs = sorted(res['seen'].values(), key=lambda h: (len(h), repr(h)))
        ctx.sample(dict(base=base, edit_script=hs[-1]))
        ctx.notes['menu_' + label] = nmenu
        if perm_edit is not None:
            tasks = perm_tasks(ctx, model, 6, perm_edit)
            ctx.pmap(run_perm_task, tasks, chunk=1)
            print('  %s: permutation tasks=%d' % (label, len(tasks)))
        if (base, level) in LIVE[ctx.tier]:
            tasks = live_tasks(model)
            ctx.pmap(run_live_task, tasks, chunk=4)
            print('  %s: live edits=%d' % (label, len(tasks)))
        if new_violations(ctx):
            return          # the property is already refuted; the remaining stages would only add more of the same

    for kind in ('rename_attr', 'retype_attr', 'add_attr', 'set_derived', 'enum_add', 'enum_move', 'row_move', 'add_udt',
                 'move_elem', 'rename_class', 'add_struct'):
        ctx.require(ctx.n('edit:' + kind) >= 1, 'edit kind %s was never applied' % kind)
    ctx.require(total >= (800 if ctx.quick else 5000), 'too few states (%d)' % total)
    ctx.require(ctx.n('permutations_run') >= 300, 'too few row permutations (%d)' % ctx.n('permutations_run'))
    ctx.require(ctx.n('perm:rotate') >= 300, 'file rotations did not run')
    ctx.require(ctx.n('reversed_runs') >= (total if ctx.quick else 5000), 'reversed files did not run in every state')
    ctx.require(ctx.n('main_runs') >= 50, 'gen_xsd_schema.main ran only %d times' % ctx.n('main_runs'))
    ctx.require(ctx.nd('outcomes') >= 200, 'too few distinct schemas observed (%d)' % ctx.nd('outcomes'))
    ctx.require(ctx.n('locality_nonempty') >= 100, 'locality checks saw no change')
    for kind in ('move_elem', 'rename_attr', 'retype_attr', 'enum_add', 'add_attr'):
        ctx.require(ctx.n('live:' + kind) >= 1, 'no live (API-level) edit of kind %s ran' % kind)
    ctx.require(ctx.n('states_with_structure_typed_attribute') >= 200, 'too few states with an attribute typed by a structured data '
                'type (%d)' % ctx.n('states_with_structure_typed_attribute'))
    ctx.require(ctx.n('struct_after_add') >= 1, 'no attribute was typed by a structured data type added by an edit')


def new_violations(ctx):
    '''Violations of this run that no open known finding accounts for.'''
    known = set(e.get('sig') for e in core.load_known(ctx.prop) if e.get('status') == 'known')
    return [v for v in ctx.violations if v['sig'] not in known]


def replay(ctx, case):
    model = XsdModel(case['base'], case.get('tier', 'quick'), case.get('seed', 0), level=case.get('level'))
    hist = case['hist']
    perm = case.get('perm')

    def one():
        w = model.build(hist)
        if case.get('live'):
            check_state(ctx, model, w, hist, live=case['live'])
        elif perm:
            check_state(ctx, model, permute(w, perm), hist, perm=perm)
        else:
            check_state(ctx, model, w, hist, routes='all')
    explorer.guarded(ctx, model, hist, case.get('op'), one)


def coverage(ctx):
    bfs_notes = dict((k, v) for k, v in ctx.notes.items() if isinstance(v, dict))
    return dict(
        states=ctx.n('states'),
        transitions=ctx.n('transitions'),
        traces_validated_against_impl=ctx.n('traces'),
        evaluations=ctx.n('evaluations'),
        distinct_nontrivial=ctx.nd('nontrivial_inputs'),
        distinct_inputs=ctx.nd('inputs'),
        distinct_outcomes=ctx.nd('outcomes'),
        rule='a case is one BridgePoint model text (Simple_Model.xtuml after an edit script, the synthesised diagram after '
             'one, or a row permutation of one); distinct by the hash of the text, non-trivial = anything but the '
             'unmodified Simple_Model.xtuml.  A trace / evaluation is one (case, component, route) whose XSD declarations '
             'were compared with expected_xsd; distinct_outcomes counts the distinct schemas observed',
        states_checked=ctx.n('states_checked'),
        bfs=bfs_notes,
        permutations_run=ctx.n('permutations_run'),
        file_rotations=ctx.n('perm:rotate'),
        reversed_runs=ctx.n('reversed_runs'),
        main_runs=ctx.n('main_runs'),
        live_runs=ctx.n('live_runs'),
        live_edits=dict((k[5:], v) for k, v in ctx.counts.items() if k.startswith('live:')),
        locality_checks=ctx.n('locality_checks'),
        structured_types=dict(states_with_one=ctx.n('states_with_structured_type'),
                              states_with_an_attribute_typed_by_one=ctx.n('states_with_structure_typed_attribute'),
                              attribute_typed_by_one_added_by_an_edit=ctx.n('struct_after_add')),
        edits=dict((k[5:], v) for k, v in ctx.counts.items() if k.startswith('edit:')),
        bounds=dict(plan=[dict(base=p[0], palette=p[1], edit_depth=p[2], main_up_to_depth=p[3], reversed_up_to_depth=p[4])
                          for p in PLAN[ctx.tier]],
                    menu_sizes=dict((k[5:], v) for k, v in ctx.notes.items() if k.startswith('menu_')),
                    data_types=TYPES_QUICK if ctx.quick else TYPES_THOROUGH, permutation_group=6),
        exhaustive=not ctx.caps_hit,
    )
