'''
C03 -- loading links exactly the key-matching pairs, independent of input order.

E2 + E3.  (1) join oracle: every population over schemas with single and
multi-attribute keys of every core type, null keys in every form, duplicate
and dangling keys, a shared referential attribute (to two classes; to one class
through two identifiers; as the identifier a third class refers to), equally
named referential attributes of two classes, reflexive and association class
shapes is loaded and its links compared with the relational join of the
reference, with rows written positionally and with named columns in any order
and letter case; (2) order / partition independence: every permutation of the
statements, every contiguous split into up to three input() calls in every
call order, files, directory trees and zip archives (also archives whose members
carry the same full name); (3) API route: the same
rows created through MetaModel.new with referential values (referred first)
and through clone().
'''
import itertools
import os
import zipfile

from mc import bootstrap, core
from mc.refs import relmodel

NEEDS_BRIDGEPOINT = True
BUDGET_S = {'quick': 3600, 'thorough': 14400}
ASSUMPTIONS = [
    'association key spellings equal the declared attribute spellings',
    'six schemas declare unique identifiers over the identifying attributes of their associations (one lists them in the other order, '
    'one class carries two); identifiers are reported, not enforced, so populations repeating an identifier stay in the domain and '
    'the linked pairs must be the same as without the declaration (round 9, C03-17)',
    'every split of an input over several input() calls is also fed with a build_metamodel() after every call; only the last '
    'build is judged (the earlier ones may be refused while a class is missing)',
    'the API route is compared for populations whose join respects the declared multiplicities; rows are created referred-first',
    'which pairs are linked depends on the model alone, not on models loaded earlier in the process (cross-model family: schemas '
    'declaring the same class and attribute names with other types, one after the other in one process)',
    'inferred-schema inputs (no CREATE TABLE) are used only with positional rows whose values determine the types',
    'column names of named INSERT statements denote the declared attribute of that name in any letter case (identifiers of the '
    'dialect are case-insensitive) and in any column order',
    'every .xtuml member of a zip archive is part of the input, also when several members carry the same full name (an archive '
    'that was appended to)',
    'an identifying attribute that is itself referential (D.B_X -> B.X, B.X -> A.Id / C.Id) has a value only through a link: the API '
    'route is compared for populations in which every non-null value of such an attribute is the one its links give (the loader '
    'route is compared for all of them, dangling ones included)',
]
ABSENT = '<absent>'
Assoc = relmodel.Assoc


def S(name, classes, assocs, uniques=()):
    return relmodel.Schema(name, classes, assocs, uniques)


def schemas_():
    out = []
    out.append((S('int_key', [('A', [('Id', 'INTEGER'), ('N', 'INTEGER')]), ('B', [('Bid', 'UNIQUE_ID'), ('A_Id', 'INTEGER')])],
                  [Assoc(1, 'B', ['A_Id'], True, True, '', 'A', ['Id'], False, True, '')], [('A', 'I1', ['Id'])]),
                {'A.Id': [ABSENT, 0, 5, 7], 'B.A_Id': [ABSENT, 0, 5, 7, 9]}, (2, 2)))
    out.append((S('id_key', [('A', [('Id', 'UNIQUE_ID'), ('N', 'INTEGER')]), ('B', [('Bid', 'UNIQUE_ID'), ('A_Id', 'UNIQUE_ID')])],
                  [Assoc(1, 'B', ['A_Id'], True, True, '', 'A', ['Id'], False, True, '')]),
                {'A.Id': [ABSENT, 0, 5, 7], 'B.A_Id': [ABSENT, 0, 5, 9]}, (2, 2)))
    out.append((S('two_attr_key', [('A', [('K1', 'STRING'), ('K2', 'UNIQUE_ID')]), ('B', [('Rb', 'UNIQUE_ID'), ('Ra', 'STRING'), ('Bid', 'INTEGER')])],
                  [Assoc(1, 'B', ['Ra', 'Rb'], True, True, '', 'A', ['K1', 'K2'], False, True, '')], [('A', 'I1', ['K2', 'K1'])]),
                {'A.K1': ['', 'k', 'm'], 'A.K2': [0, 1], 'B.Ra': [ABSENT, '', 'k', 'z'], 'B.Rb': [0, 1, 2]}, (2, 1)))
    out.append((S('bool_key', [('A', [('F', 'BOOLEAN'), ('N', 'INTEGER')]), ('B', [('AF', 'BOOLEAN'), ('Bid', 'INTEGER')])],
                  [Assoc(1, 'B', ['AF'], True, True, '', 'A', ['F'], True, True, '')]),
                {'A.F': [ABSENT, False, True], 'B.AF': [ABSENT, False, True]}, (2, 2)))
    out.append((S('real_key', [('A', [('X', 'REAL'), ('N', 'INTEGER')]), ('B', [('AX', 'REAL'), ('Bid', 'INTEGER')])],
                  [Assoc(1, 'B', ['AX'], True, True, '', 'A', ['X'], True, True, '')]),
                {'A.X': [ABSENT, 0.0, 1.5], 'B.AX': [ABSENT, 0.0, 1.5, 2.5]}, (2, 2)))
    out.append((S('shared_referential', [('A', [('Id', 'UNIQUE_ID')]), ('C', [('Id', 'UNIQUE_ID')]), ('B', [('Bid', 'INTEGER'), ('X', 'UNIQUE_ID')])],
                  [Assoc(1, 'B', ['X'], True, True, '', 'A', ['Id'], False, True, ''), Assoc(2, 'B', ['X'], True, True, '', 'C', ['Id'], False, True, '')]),
                {'A.Id': [0, 5, 7], 'C.Id': [5, 8], 'B.X': [ABSENT, 0, 5, 7, 8]}, (1, 1, 2)))
    out.append((S('reflexive', [('A', [('Id', 'UNIQUE_ID'), ('Next_Id', 'UNIQUE_ID')])],
                  [Assoc(2, 'A', ['Next_Id'], False, True, 'prev', 'A', ['Id'], False, True, 'next')], [('A', 'I1', ['Id'])]),
                {'A.Id': [0, 5, 7], 'A.Next_Id': [ABSENT, 0, 5, 7, 9]}, (3,)))
    out.append((S('assoc_class', [('A', [('Id', 'UNIQUE_ID')]), ('B', [('Id', 'UNIQUE_ID')]), ('C', [('Cid', 'INTEGER'), ('A_Id', 'UNIQUE_ID'), ('B_Id', 'UNIQUE_ID')])],
                  [Assoc(3, 'C', ['A_Id'], True, True, '', 'A', ['Id'], False, False, ''), Assoc(3, 'C', ['B_Id'], True, True, '', 'B', ['Id'], False, False, '')],
                  [('A', 'I1', ['Id']), ('C', 'I1', ['A_Id', 'B_Id'])]),
                {'A.Id': [5, 7], 'B.Id': [5, 6], 'C.A_Id': [0, 5, 7], 'C.B_Id': [ABSENT, 5, 6]}, (2, 1, 2)))
    out.append((S('reflexive_assoc_class', [('A', [('Id', 'UNIQUE_ID')]), ('C', [('Cid', 'INTEGER'), ('One_Id', 'UNIQUE_ID'), ('Other_Id', 'UNIQUE_ID')])],
                  [Assoc(3, 'C', ['One_Id'], True, True, 'one', 'A', ['Id'], False, False, 'other'),
                   Assoc(3, 'C', ['Other_Id'], True, True, 'other', 'A', ['Id'], False, False, 'one')]),
                {'A.Id': [5, 7], 'C.One_Id': [0, 5, 7], 'C.Other_Id': [5, 7, 9]}, (2, 2)))
    out.append((S('two_identifiers', [('A', [('Id', 'UNIQUE_ID'), ('Code', 'INTEGER')]), ('B', [('Bid', 'INTEGER'), ('A_Id', 'UNIQUE_ID'), ('A_Code', 'INTEGER')])],
                  [Assoc(1, 'B', ['A_Id'], True, True, '', 'A', ['Id'], False, True, ''), Assoc(2, 'B', ['A_Code'], True, True, '', 'A', ['Code'], False, True, '')],
                  [('A', 'I1', ['Id']), ('A', 'I2', ['Code'])]),
                {'A.Id': [5, 7], 'A.Code': [1, 2], 'B.A_Id': [0, 5, 7], 'B.A_Code': [ABSENT, 1, 2, 3]}, (2, 2)))
    # two associations to the same referred class across the same identifying attributes, listed in different orders
    out.append((S('crossed_key_order', [('A', [('P', 'INTEGER'), ('Q', 'INTEGER')]), ('B', [('Bid', 'INTEGER'), ('X', 'INTEGER'), ('Y', 'INTEGER')]),
                                        ('C', [('Cid', 'INTEGER'), ('X', 'INTEGER'), ('Y', 'INTEGER')])],
                  [Assoc(1, 'B', ['X', 'Y'], True, True, '', 'A', ['P', 'Q'], True, True, ''),
                   Assoc(2, 'C', ['X', 'Y'], True, True, '', 'A', ['Q', 'P'], True, True, '')]),
                {'A.P': [1, 2], 'A.Q': [1, 2], 'B.X': [1, 2], 'B.Y': [1, 2], 'C.X': [1, 2], 'C.Y': [ABSENT, 1, 2]}, (2, 1, 1)))
    # the key attributes of int_key / id_key under a third type (cross-model family: same names, other types)
    out.append((S('str_key', [('A', [('Id', 'STRING'), ('N', 'INTEGER')]), ('B', [('Bid', 'UNIQUE_ID'), ('A_Id', 'STRING')])],
                  [Assoc(1, 'B', ['A_Id'], True, True, '', 'A', ['Id'], False, True, '')]),
                {'A.Id': [ABSENT, '', '0', 'k'], 'B.A_Id': [ABSENT, '', '0', 'k', 'z']}, (2, 2)))
    out.append((S('phrased_non_reflexive', [('A', [('Id', 'UNIQUE_ID')]), ('B', [('Bid', 'INTEGER'), ('A_Id', 'UNIQUE_ID')])],
                  [Assoc(7, 'B', ['A_Id'], True, True, 'is held by', 'A', ['Id'], False, True, 'holds')]),
                {'A.Id': [5, 7], 'B.A_Id': [0, 5, 9]}, (2, 2)))
    # one referential attribute formalising two associations to the SAME class through two different identifiers
    out.append((S('shared_name_two_identifiers', [('A', [('Id', 'UNIQUE_ID'), ('Alt', 'UNIQUE_ID')]), ('B', [('Bid', 'INTEGER'), ('Ref', 'UNIQUE_ID')])],
                  [Assoc(1, 'B', ['Ref'], True, True, '', 'A', ['Id'], False, True, ''), Assoc(2, 'B', ['Ref'], True, True, '', 'A', ['Alt'], False, True, '')]),
                {'A.Id': [5, 7], 'A.Alt': [5, 7, 8], 'B.Ref': [ABSENT, 0, 5, 8]}, (2, 2)))
    # two classes whose referential attributes carry the same name and refer to the same class through different identifiers
    out.append((S('same_name_two_classes', [('A', [('Id', 'UNIQUE_ID'), ('Alt', 'UNIQUE_ID')]), ('B', [('Bid', 'INTEGER'), ('Ref', 'UNIQUE_ID')]),
                                            ('C', [('Cid', 'INTEGER'), ('Ref', 'UNIQUE_ID')])],
                  [Assoc(1, 'B', ['Ref'], True, True, '', 'A', ['Id'], False, True, ''), Assoc(2, 'C', ['Ref'], True, True, '', 'A', ['Alt'], False, True, '')]),
                {'A.Id': [5, 7], 'A.Alt': [5, 7], 'B.Ref': [ABSENT, 5, 7, 8], 'C.Ref': [0, 5, 7]}, (2, 1, 1)))
    # the same with two-attribute keys listed in crossed orders: equal sets of referring names, different identifiers
    out.append((S('same_names_two_attr_identifiers', [('A', [('P', 'INTEGER'), ('Q', 'INTEGER'), ('U', 'INTEGER')]),
                                                      ('B', [('Bid', 'INTEGER'), ('X', 'INTEGER'), ('Y', 'INTEGER')]),
                                                      ('C', [('Cid', 'INTEGER'), ('Y', 'INTEGER'), ('X', 'INTEGER')])],
                  [Assoc(1, 'B', ['X', 'Y'], True, True, '', 'A', ['P', 'Q'], True, True, ''),
                   Assoc(2, 'C', ['X', 'Y'], True, True, '', 'A', ['U', 'P'], True, True, '')]),
                {'A.P': [1, 2], 'A.Q': [1, 2], 'A.U': [1, 2], 'B.X': [1, 2], 'B.Y': [1, 2], 'C.X': [1, 2], 'C.Y': [ABSENT, 1, 2]}, (1, 1, 1)))
    # three levels: a shared referential attribute named differently from the identifiers it refers to, itself the identifier a
    # third class refers to
    out.append((S('shared_referential_chain', [('A', [('Id', 'UNIQUE_ID')]), ('C', [('Id', 'UNIQUE_ID')]), ('B', [('Bid', 'INTEGER'), ('X', 'UNIQUE_ID')]),
                                               ('D', [('Did', 'INTEGER'), ('B_X', 'UNIQUE_ID')])],
                  [Assoc(1, 'B', ['X'], True, True, '', 'A', ['Id'], False, True, ''), Assoc(2, 'B', ['X'], True, True, '', 'C', ['Id'], False, True, ''),
                   Assoc(3, 'D', ['B_X'], True, True, '', 'B', ['X'], False, True, '')]),
                {'A.Id': [5, 7], 'C.Id': [5, 8], 'B.X': [5, 7, 8, 9], 'D.B_X': [ABSENT, 0, 5, 7, 8, 9]}, (1, 1, 2, 1)))
    for schema, _, caps in out:
        assert len(caps) == len(schema.classes), schema.name
    return out


def populations(schema, alphabet, caps, tier):
    '''All lists of rows [(kind, {attr: value})] within the caps (rows of one class are contiguous, referred classes first).'''
    per_kind = []
    for (kind, attrs), cap in zip(schema.classes, caps):
        if tier == 'thorough' and kind == schema.classes[-1][0]:
            cap += 1
        names = [a for a, _ in attrs]
        opts = []
        for a, t in attrs:
            key = '%s.%s' % (kind, a)
            opts.append(alphabet.get(key, ['auto']))
        rows = []
        for combo in itertools.product(*opts):
            rows.append(dict((n, v) for n, v in zip(names, combo)))
        lists = [[]]
        for n in range(1, cap + 1):
            lists += [list(c) for c in itertools.product(rows, repeat=n)]
        per_kind.append((kind, lists))
    for combo in itertools.product(*[l for _, l in per_kind]):
        rows = []
        counter = 0
        for (kind, _), lst in zip(per_kind, combo):
            for r in lst:
                r = dict(r)
                for k, v in list(r.items()):
                    if v == 'auto':
                        counter += 1
                        r[k] = 100 + counter
                rows.append([kind, r])
        if rows:
            yield rows


def lit(value, ty, style=0):
    ty = ty.upper()
    if ty == 'STRING':
        return "'%s'" % value.replace("'", "''")
    if ty == 'UNIQUE_ID':
        if style % 2:
            return str(value)
        return '"%08x-0000-0000-0000-%012x"' % (value >> 48, value & 0xffffffffffff)
    if ty == 'BOOLEAN':
        return ('TRUE' if value else 'FALSE') if style % 2 == 0 else ('1' if value else '0')
    if ty == 'REAL':
        return '%f' % value
    return '%d' % value


def spelled(name, k):
    '''A column name in one of four letter cases (identifiers of the dialect are case-insensitive).'''
    return (name, name.upper(), name.lower(), name.swapcase())[k % 4]


def statements(schema, rows, style=0):
    '''The statement texts of an input: CREATE TABLE / ROP statements then one INSERT per row.
    style 0 / 1: positional rows (shorter rows when the unset values are the last columns, named columns when an unset value
    is followed by a set one), 2 / 3: named columns in declared / reversed order and the
    declared spelling, 4 / 5: named columns rotated by the row number / reversed, every column name in another letter case
    (declared, upper, lower, swapped -- cycling over rows and columns); odd styles write ids as integers and booleans as 0 / 1.'''
    out = []
    for kind, attrs in schema.classes:
        out.append('CREATE TABLE %s (%s);' % (kind, ', '.join('%s %s' % (n, t) for n, t in attrs)))
    for a in schema.assocs:
        out.append(a.sql().strip())
    for kind, name, attrs in schema.uniques:
        out.append('CREATE UNIQUE INDEX %s ON %s (%s);' % (name, kind, ', '.join(attrs)))
    types = dict((k, dict(a)) for k, a in schema.classes)
    for ri, (kind, values) in enumerate(rows):
        names = [n for n, _ in schema.attrs(kind) if values.get(n, ABSENT) != ABSENT]
        declared = [n for n, _ in schema.attrs(kind)]
        if style < 2 and names and names == declared[:len(names)]:
            # positional row; unset values at the end of the column list are simply left out (a shorter positional row)
            out.append('INSERT INTO %s VALUES (%s);' % (kind, ', '.join(lit(values[n], types[kind][n], style) for n in names)))
        else:
            shown = names if style % 2 == 0 else names[::-1]
            cols = shown
            if style >= 4:
                if style == 4 and names:
                    k = ri % len(names)
                    shown = names[k:] + names[:k]
                cols = [spelled(n, ri + ci + 1) for ci, n in enumerate(shown)]
            out.append('INSERT INTO %s (%s) VALUES (%s);' % (kind, ', '.join(cols), ', '.join(lit(values[n], types[kind][n], style) for n in shown)))
    return out


def ref_rows(rows):
    return [(k, dict((n, (None if v == ABSENT else v)) for n, v in vals.items())) for k, vals in rows]


def load(texts, builds_between=False):
    import xtuml
    l = xtuml.ModelLoader()
    for k, t in enumerate(texts):
        if builds_between and k:
            # a metamodel built from the input given so far (it may be refused while a class is still missing);
            # the statement is about the last build only, which must not depend on earlier ones
            try:
                l.build_metamodel(xtuml.IntegerGenerator())
            except Exception:
                pass
        l.input(t)
    return l.build_metamodel(xtuml.IntegerGenerator())


def label_map(m, schema, rows):
    per_kind = dict((k, iter(list(m.select_many(k)))) for k in schema.kinds())
    label = {}
    for i, (kind, _) in enumerate(rows):
        inst = next(per_kind[kind], None)
        if inst is not None:
            label[inst] = i
    return label


def value_canon(m, schema):
    '''Order-independent canonical form: instances as sorted value tuples, links as pairs of value tuples.'''
    import xtuml
    vt = {}
    out = {}
    for kind, attrs in schema.classes:
        rows = []
        for inst in m.select_many(kind):
            t = tuple(repr(getattr(inst, n)) for n, _ in attrs)
            vt[inst] = (kind,) + t
            rows.append(t)
        out['inst:' + kind] = sorted(rows)
    for a in schema.assocs:
        pairs, back = [], []
        for inst in m.select_many(a.src):
            for o in xtuml.navigate_many(inst).nav(a.tgt, a.rel, a.sphrase)():
                pairs.append((vt[inst], vt.get(o)))
        for inst in m.select_many(a.tgt):
            for o in xtuml.navigate_many(inst).nav(a.src, a.rel, a.tphrase)():
                back.append((vt.get(o), vt[inst]))
        out['links:R%d:%s->%s:%s' % (a.rel, a.src, a.tgt, a.sphrase)] = sorted(pairs, key=repr)
        out['back:R%d:%s->%s:%s' % (a.rel, a.src, a.tgt, a.sphrase)] = sorted(back, key=repr)
    return out


# ---------------------------------------------------------------------------

def join_task(ctx, task):
    import xtuml
    si, tier, pops = task
    schema, alphabet, caps = schemas_()[si]
    for rows in pops:
        for style in ((0,) if tier == 'cross' else (0, 3, 4) if tier == 'quick' else (0, 1, 2, 3, 4, 5)):
            ctx.count('loads')
            case = dict(kind='join', schema=si, rows=rows, style=style)
            text = '\n'.join(statements(schema, rows, style))
            try:
                with core.time_limit(20):
                    m = load([text])
            except Exception as e:
                ctx.violation('c03:join:load:%s' % type(e).__name__, case, 'loading raised %s: %s\n%s' % (type(e).__name__, e, text), None, str(e))
                continue
            ref = relmodel.Ref(schema)
            ref.load(ref_rows(rows))
            obs = relmodel.observe_real(xtuml, m, schema, label_map(m, schema, rows))
            d = relmodel.diff_obs(ref.observe(), obs)
            if d:
                part = d.split('[', 1)[0]
                ctx.violation('c03:join:%s:%s' % (schema.name, part), case,
                              'loaded links differ from the key join: %s\n%s' % (d, text), None, d,
                              unit_test='import xtuml\nl = xtuml.ModelLoader()\nl.input(%r)\nm = l.build_metamodel()' % text)
                continue
            ctx.count('traces')
            nlinks = sum(len(v) for v in ref.fwd[0].values())
            ctx.distinct('join_cases', (si, repr(rows)))
            if nlinks:
                ctx.distinct('nontrivial', ('join', si, repr(rows)))


# schemas left out of the cross-model family: their name / type clashes (A.Id, B.X of type UNIQUE_ID against INTEGER / STRING)
# are those of id_key and shared_referential, which take part
CROSS_EXEMPT = ('shared_name_two_identifiers', 'same_name_two_classes', 'same_names_two_attr_identifiers', 'shared_referential_chain')


def cross_pairs():
    '''Ordered pairs (i, j) of schemas that declare a class and attribute of the same names with different types: the
    models are unrelated, but anything the loader remembers by name would carry over.'''
    sch = [s for s, _, _ in schemas_()]
    out = []
    for i, a in enumerate(sch):
        if a.name in CROSS_EXEMPT:
            continue
        ta = dict(((k, n.upper()), t.upper()) for k, attrs in a.classes for n, t in attrs)
        for j, b in enumerate(sch):
            if i == j or b.name in CROSS_EXEMPT:
                continue
            tb = dict(((k, n.upper()), t.upper()) for k, attrs in b.classes for n, t in attrs)
            if any(key in tb and tb[key] != t for key, t in ta.items()):
                out.append((i, j))
    return out


def cover(si, tier):
    '''A few populations of schema si that together use every value of its alphabet (greedy cover, deterministic).'''
    schema, alphabet, caps = schemas_()[si]
    pops = list(populations(schema, alphabet, caps, tier))
    want = set((k, repr(v)) for k, vs in alphabet.items() for v in vs)
    chosen = []
    while want:
        best, gain = None, 0
        for rows in pops:
            g = len(want & set(('%s.%s' % (kind, n), repr(v)) for kind, vals in rows for n, v in vals.items()))
            if g > gain or (g == gain and g and len(rows) > len(best)):
                best, gain = rows, g
        if not best:
            break
        chosen.append(best)
        want -= set(('%s.%s' % (kind, n), repr(v)) for kind, vals in best for n, v in vals.items())
    return chosen


def cross_task(ctx, task):
    '''In a process of its own: load populations of schema i, then judge every population of schema j (join oracle).'''
    si, sj, tier, pre, pops = task
    schema = schemas_()[si][0]
    for rows in pre:
        try:
            load(['\n'.join(statements(schema, rows, 0))])
        except Exception:
            pass        # judged by the join family
    sub = core.Ctx(ctx.prop, ctx.tier, ctx.seed)
    join_task(sub, (sj, 'cross', pops))
    for v in sub.violations:
        ctx.violation(v['sig'].replace('c03:join:', 'c03:cross:'), dict(v['case'], kind='cross', pre_schema=si, pre=pre), 'after loading %d populations of schema %s in the same process: %s' %
                      (len(pre), schema.name, v['message']), v.get('expected'), v.get('observed'))
    ctx.count('loads', sub.n('loads') + len(pre))
    ctx.count('traces', sub.n('traces'))
    ctx.count('cross_loads', sub.n('loads'))


def small_inputs(tier):
    '''Inputs of at most 6 (7) statements for the permutation / partition oracle.'''
    out = []
    for si, (schema, alphabet, caps) in enumerate(schemas_()):
        nschema = len(schema.classes) + len(schema.assocs) + len(schema.uniques)
        budget = (6 if tier == 'quick' else 7) - nschema
        if budget < 2:
            continue
        picked = 0
        for rows in populations(schema, alphabet, caps, 'quick'):
            if len(rows) != budget:
                continue
            ref = relmodel.Ref(schema)
            ref.load(ref_rows(rows))
            if not any(ref.fwd[ai] for ai in range(len(schema.assocs))):
                continue
            out.append((si, rows))
            picked += 1
            if picked >= (6 if tier == 'quick' else 20):
                break
    return out


def order_task(ctx, task):
    si, rows, tier = task
    schema, _, _ = schemas_()[si]
    stmts = statements(schema, rows, 0)
    base = value_canon(load(['\n'.join(stmts)]), schema)
    case0 = dict(kind='order', schema=si, rows=rows)
    n = len(stmts)
    for perm in itertools.permutations(range(n)):
        ctx.count('loads')
        try:
            got = value_canon(load(['\n'.join(stmts[i] for i in perm)]), schema)
        except Exception as e:
            ctx.violation('c03:order:permutation:%s' % type(e).__name__, dict(case0, perm=list(perm)),
                          'statement order %s raised %s: %s' % (list(perm), type(e).__name__, e))
            continue
        if got != base:
            ctx.violation('c03:order:permutation', dict(case0, perm=list(perm)),
                          'statement order %s gives a different metamodel: %s' % (list(perm), first_diff(base, got)), None, first_diff(base, got))
            continue
        ctx.count('traces')
        ctx.distinct('nontrivial', ('perm', si, repr(rows), perm))
    # contiguous splits into up to three input() calls, in every call order
    for cuts in [()] + [(i,) for i in range(1, n)] + [(i, j) for i in range(1, n) for j in range(i + 1, n)]:
        bounds = (0,) + cuts + (n,)
        parts = ['\n'.join(stmts[bounds[k]:bounds[k + 1]]) for k in range(len(bounds) - 1)]
        for order in itertools.permutations(range(len(parts))):
            ctx.count('loads')
            got = value_canon(load([parts[i] for i in order]), schema)
            if got != base:
                ctx.violation('c03:order:partition', dict(case0, cuts=list(cuts), order=list(order)),
                              'split %s fed in order %s gives a different metamodel: %s' % (cuts, order, first_diff(base, got)))
                continue
            ctx.count('traces')
            ctx.distinct('nontrivial', ('split', si, repr(rows), cuts, order))
            if len(parts) > 1:
                # the same split with a metamodel built after every input() call (round 7: C03-14)
                ctx.count('loads')
                try:
                    got = value_canon(load([parts[i] for i in order], builds_between=True), schema)
                except Exception as e:
                    ctx.violation('c03:order:partition-with-builds:%s' % type(e).__name__,
                                  dict(case0, cuts=list(cuts), order=list(order), builds_between=True),
                                  'split %s fed in order %s with a build after every input raised %s: %s'
                                  % (cuts, order, type(e).__name__, e))
                    continue
                if got != base:
                    ctx.violation('c03:order:partition-with-builds',
                                  dict(case0, cuts=list(cuts), order=list(order), builds_between=True),
                                  'split %s fed in order %s with a build after every input gives a different metamodel: %s'
                                  % (cuts, order, first_diff(base, got)))
                    continue
                ctx.count('traces')
                ctx.distinct('nontrivial', ('split+builds', si, repr(rows), cuts, order))


def first_diff(a, b):
    for k in sorted(set(a) | set(b)):
        if a.get(k) != b.get(k):
            return '%s: %r vs %r' % (k, a.get(k), b.get(k))


class LightBridgePointLoader(object):
    '''bridgepoint.ooaofooa.ModelLoader.filename_input (file / directory walk / zip members) on a loader that
    does not pre-load the ooaofooa schema.'''
    @staticmethod
    def make():
        import xtuml
        from bridgepoint import ooaofooa

        class L(ooaofooa.ModelLoader):
            def __init__(self):
                xtuml.ModelLoader.__init__(self)
        return L()


def files_task(ctx, task):
    import xtuml
    si, rows, tier = task
    schema, _, _ = schemas_()[si]
    stmts = statements(schema, rows, 0)
    base = value_canon(load(['\n'.join(stmts)]), schema)
    root = os.path.join(bootstrap.tmpdir(), 'c03-%d' % os.getpid())
    n = len(stmts)
    case0 = dict(kind='files', schema=si, rows=rows)
    # every assignment of statements to three files; layout: file 0 in the root, file 1 in sub/, file 2 in sub/deep/
    import shutil
    import warnings
    for assign in itertools.product(range(3), repeat=n):
        if tier == 'quick' and sum(assign) % 3 != 0:
            continue
        shutil.rmtree(root, ignore_errors=True)
        os.makedirs(os.path.join(root, 'other', 'deep'))
        os.makedirs(os.path.join(root, 'sub'))
        paths = [os.path.join(root, 'a.xtuml'), os.path.join(root, 'sub', 'b.xtuml'), os.path.join(root, 'other', 'deep', 'c.xtuml')]
        # (files end with a line break, with nothing, or with a comment that has no final line break)
        contents = ['\n'.join(s for s, a in zip(stmts, assign) if a == k) + ['\n', '', ' -- end of file', '\n-- c'][(k + sum(assign)) % 4]
                    for k in range(3)]
        for p, text in zip(paths, contents):
            with open(p, 'w') as f:
                f.write(text)
        with open(os.path.join(root, 'sub', 'decoy.sql'), 'w') as f:
            f.write('this is not sql and must not be read')
        # archives in which several members carry the same full name (zipfile / "zip -g" append without replacing): every
        # member is a part of the input. Quick: one naming scheme per spread, thorough: all of them
        dups = sorted(ZIPDUP_SCHEMES) if tier != 'quick' else [sorted(ZIPDUP_SCHEMES)[(sum(assign) // 3) % len(ZIPDUP_SCHEMES)]]
        # (round 8, C03-16) a second tree whose three files carry one and the same name in different directories
        root2 = root + '-same'
        shutil.rmtree(root2, ignore_errors=True)
        for sub_, text in zip(('', 'sub', os.path.join('other', 'deep')), contents):
            os.makedirs(os.path.join(root2, sub_), exist_ok=True)
            with open(os.path.join(root2, sub_, 'm.xtuml'), 'w') as f:
                f.write(text)
        # (round 11, C03-22) a third tree whose names are unusual: the root's name holds pattern characters, one file and
        # one directory begin with a dot, one directory is named like a pattern
        root3 = root + ' [v2]'
        shutil.rmtree(root3, ignore_errors=True)
        for sub_, fname, text in zip(('', '.hid', os.path.join('x*y', '[a-c]')), ('.a.xtuml', 'b.xtuml', 'c?.xtuml'), contents):
            os.makedirs(os.path.join(root3, sub_), exist_ok=True)
            with open(os.path.join(root3, sub_, fname), 'w') as f:
                f.write(text)
        for route in ['dir', 'dirsame', 'dirodd', 'zip', 'files'] + ['zipdup:' + d for d in dups]:
            ctx.count('loads')
            sigroute = route.split(':')[0]
            try:
                l = LightBridgePointLoader.make()
                if route == 'dir':
                    l.filename_input(root)
                elif route == 'dirsame':
                    l.filename_input(root2)
                elif route == 'dirodd':
                    l.filename_input(root3)
                elif route == 'files':
                    for p in paths:
                        l.filename_input(p)
                else:
                    z = os.path.join(bootstrap.tmpdir(), 'c03-%d.zip' % os.getpid())
                    with zipfile.ZipFile(z, 'w') as zf:
                        if route == 'zip':
                            for p in paths:
                                zf.write(p, os.path.relpath(p, root))
                        else:
                            with warnings.catch_warnings():
                                warnings.simplefilter('ignore')           # UserWarning: Duplicate name
                                for name, text in zip(ZIPDUP_SCHEMES[route.split(':')[1]], contents):
                                    zf.writestr(name, text)
                            ctx.count('zip_archives_with_equally_named_members')
                        zf.write(os.path.join(root, 'sub', 'decoy.sql'), 'sub/decoy.sql')
                    l.filename_input(z)
                got = value_canon(l.build_metamodel(xtuml.IntegerGenerator()), schema)
            except Exception as e:
                ctx.violation('c03:files:%s:%s' % (sigroute, type(e).__name__), dict(case0, assign=list(assign), route=route),
                              'route %s with statements spread %s raised %s: %s' % (route, assign, type(e).__name__, e))
                continue
            if got != base:
                where = 'm.xtuml, sub/m.xtuml, other/deep/m.xtuml' if sigroute == 'dirsame' else \
                    "'<root> [v2]'/.a.xtuml, .hid/b.xtuml, 'x*y/[a-c]/c?.xtuml'" if sigroute == 'dirodd' else \
                    'a.xtuml, sub/b.xtuml, other/deep/c.xtuml' if sigroute != 'zipdup' else \
                    'the archive members %s' % (ZIPDUP_SCHEMES[route.split(':')[1]],)
                ctx.violation('c03:files:%s' % sigroute, dict(case0, assign=list(assign), route=route),
                              'route %s with statements spread %s over %s differs from the '
                              'single-string load: %s' % (route, assign, where, first_diff(base, got)))
                continue
            ctx.count('traces')
            ctx.distinct('nontrivial', ('files', si, repr(rows), assign, route))
    shutil.rmtree(root, ignore_errors=True)
    shutil.rmtree(root + '-same', ignore_errors=True)
    shutil.rmtree(root + ' [v2]', ignore_errors=True)


# member names of archives holding equally named members, in member order
ZIPDUP_SCHEMES = {
    'all-same': ['m.xtuml', 'm.xtuml', 'm.xtuml'],
    'first-last-same': ['sub/m.xtuml', 'n.xtuml', 'sub/m.xtuml'],
    'first-two-same': ['a.xtuml', 'a.xtuml', 'other/deep/b.xtuml'],
}


def api_task(ctx, task):
    import xtuml
    si, tier, pops = task
    schema, alphabet, caps = schemas_()[si]
    phrased = any(a.sphrase != a.tphrase for a in schema.assocs)
    for rows in pops:
        ref = relmodel.Ref(schema)
        ref.load(ref_rows(rows))
        # only populations whose join respects the declared multiplicities ...
        ok = True
        for ai, a in enumerate(schema.assocs):
            if any(len(v) > 1 for v in ref.fwd[ai].values()) and not a.tmany:
                ok = False
            if any(len(v) > 1 for v in ref.bwd[ai].values()) and not a.smany:
                ok = False
        # ... and that admit a referred-first order (rows are listed referred classes first; reflexive: check explicitly)
        for ai, a in enumerate(schema.assocs):
            for s, ts in ref.fwd[ai].items():
                if any(t > s for t in ts):       # (a row may refer to itself)
                    ok = False
        # an unset identifying value cannot be expressed through new() (it would become the type's default)
        # (round 12, C03-23: it is there to be cloned, though -- the clone route takes these populations too)
        unset_identifying = False
        for a in schema.assocs:
            for kind, values in rows:
                if kind == a.tgt and any(values.get(k, ABSENT) == ABSENT for k in a.tkeys):
                    unset_identifying = True
        # an identifying attribute that is itself referential holds a value only through a link: a dangling value of it
        # cannot be expressed through new() / is not there to be cloned
        types = dict((k, dict(a)) for k, a in schema.classes)
        for a in schema.assocs:
            for k in a.tkeys:
                if k not in schema.referentials(a.tgt):
                    continue
                for idx, (kind, values) in enumerate(rows):
                    v = values.get(k, ABSENT)
                    if kind == a.tgt and v != ABSENT and not relmodel.is_null(v, types[kind][k]) and ref.attr(idx, k) != v:
                        ok = False
        if not ok:
            continue
        if any(k in schema.referentials(a.tgt) for a in schema.assocs for k in a.tkeys):
            ctx.count('api_chained_cases')
        ctx.count('api_cases')
        case = dict(kind='api', schema=si, rows=rows)
        want = ref.observe()
        for route in ('new', 'clone'):
            if unset_identifying:
                if route == 'new':
                    continue
                ctx.count('api_clones_of_rows_with_unset_identifying_values')
            ctx.count('loads')
            try:
                m = relmodel.build_real(xtuml, schema)
                if route == 'new':
                    for kind, values in rows:
                        m.new(kind, **dict((k, v) for k, v in values.items() if v != ABSENT))
                else:
                    src = load(['\n'.join(statements(schema, rows, 0))])
                    for kind, _ in schema.classes:
                        for inst in src.select_many(kind):
                            m.clone(inst)
                obs = relmodel.observe_real(xtuml, m, schema, label_map(m, schema, rows))
            except xtuml.UnknownLinkException as e:
                sig = 'c03:api:%s:UnknownLinkException' % route
                if phrased and not any(a.src == a.tgt for a in schema.assocs) and schema.name == 'phrased_non_reflexive':
                    sig = 'c03:api:phrased-non-reflexive:UnknownLinkException'
                ctx.violation(sig, dict(case, route=route), 'creating the rows through MetaModel.%s raised UnknownLinkException: %s' % (route, e),
                              want['nav'], str(e))
                continue
            except Exception as e:
                ctx.violation('c03:api:%s:%s' % (route, type(e).__name__), dict(case, route=route),
                              'creating the rows through MetaModel.%s raised %s: %s' % (route, type(e).__name__, e))
                continue
            d = relmodel.diff_obs(want, obs)
            if d:
                sig = 'c03:api:%s:links' % route
                if phrased and swapped_prediction(schema, rows) == obs['nav']:
                    sig = 'c03:api:links-across-the-opposite-phrase'
                ctx.violation(sig, dict(case, route=route),
                              'rows created through MetaModel.%s are linked differently from the loaded rows: %s' % (route, d), want['nav'], obs['nav'])
                continue
            ctx.count('traces')
            ctx.distinct('nontrivial', ('api', route, si, repr(rows)))


def swapped_prediction(schema, rows):
    '''What navigation would look like if every phrased association were linked across the opposite phrase
    (the signature of the recorded finding F-C03).'''
    swapped = relmodel.Schema(schema.name, schema.classes,
                              [Assoc(a.rel, a.src, a.skeys, a.smany, a.scond, a.tphrase, a.tgt, a.tkeys, a.tmany, a.tcond, a.sphrase)
                               for a in schema.assocs], schema.uniques)
    ref = relmodel.Ref(swapped)
    ref.load(ref_rows(rows))
    # observe with the ORIGINAL menu naming
    obs = ref.observe()
    return obs['nav']


def chunks(seq, n):
    return [seq[i:i + n] for i in range(0, len(seq), n)]


def run(ctx):
    tasks, api_tasks = [], []
    for si, (schema, alphabet, caps) in enumerate(schemas_()):
        pops = list(populations(schema, alphabet, caps, ctx.tier))
        ctx.count('populations', len(pops))
        k = ctx.seed % 3
        pops = pops[k:] + pops[:k]
        for c in chunks(pops, 60):
            tasks.append((si, ctx.tier, c))
            api_tasks.append((si, ctx.tier, c))
    ctx.pmap(join_task, tasks, fresh=True)
    print('  join: populations=%d t=%.0fs' % (ctx.n('populations'), ctx.elapsed()), flush=True)
    ctx.pmap(api_task, api_tasks, fresh=True)
    print('  api: cases=%d t=%.0fs' % (ctx.n('api_cases'), ctx.elapsed()), flush=True)
    # cross-model family: each task in a process of its own
    ctasks = []
    for si, sj in cross_pairs():
        pre = cover(si, 'quick')
        schema, alphabet, caps = schemas_()[sj]
        pops = list(populations(schema, alphabet, caps, 'quick'))
        for c in chunks(pops, 250):
            ctasks.append((si, sj, ctx.tier, pre, c))
    ctx.count('cross_pairs', len(cross_pairs()))
    ctx.pmap(cross_task, ctasks, fresh=True)
    print('  cross-model: loads=%d t=%.0fs' % (ctx.n('cross_loads'), ctx.elapsed()), flush=True)
    ctx.require(ctx.n('cross_loads') >= 2000, 'too few loads in the cross-model family (%d)' % ctx.n('cross_loads'))
    small = small_inputs(ctx.tier)
    ctx.count('small_inputs', len(small))
    ctx.pmap(order_task, [(si, rows, ctx.tier) for si, rows in small], fresh=True)
    print('  order: inputs=%d t=%.0fs' % (len(small), ctx.elapsed()), flush=True)
    bound = 6 if ctx.quick else 7           # statements per input (see small_inputs)
    ctx.pmap(files_task, [(si, rows, ctx.tier) for si, rows in small[:: (4 if ctx.quick else 2)] if len(statements(schemas_()[si][0], rows)) <= bound])
    sch, al, cp = schemas_()[2]
    ctx.sample(dict(schema=sch.name, input='\n'.join(statements(sch, next(iter(populations(sch, al, cp, 'quick'))), 0))))
    if small:
        ctx.sample(dict(order_input=statements(schemas_()[small[0][0]][0], small[0][1], 0)))
    ctx.require(ctx.n('zip_archives_with_equally_named_members') >= 200, 'too few zip archives with equally named members (%d)' %
                ctx.n('zip_archives_with_equally_named_members'))
    ctx.require(ctx.nd('join_cases') >= 2000, 'too few populations loaded (%d)' % ctx.nd('join_cases'))
    ctx.require(ctx.n('small_inputs') >= 20, 'too few inputs for the permutation oracle (%d)' % ctx.n('small_inputs'))
    ctx.require(ctx.n('api_cases') >= 200, 'too few API-route populations (%d)' % ctx.n('api_cases'))
    ctx.require(ctx.n('api_chained_cases') >= 100, 'too few API-route populations with a referential identifier (%d)' % ctx.n('api_chained_cases'))
    for si, (schema, _, caps) in enumerate(schemas_()):
        # (every schema that admits an input of exactly the statement bound)
        if 2 <= bound - len(schema.classes) - len(schema.assocs) - len(schema.uniques) <= sum(caps):
            ctx.require(any(i == si for i, _ in small), 'schema %s takes no part in the permutation family' % schema.name)


def replay(ctx, case):
    k = case['kind']
    if k == 'join':
        join_task(ctx, (case['schema'], 'thorough', [case['rows']]))
    elif k == 'cross':
        cross_task(ctx, (case['pre_schema'], case['schema'], 'thorough', case['pre'], [case['rows']]))
    elif k == 'api':
        api_task(ctx, (case['schema'], 'thorough', [case['rows']]))
    elif k == 'order':
        order_task(ctx, (case['schema'], case['rows'], 'thorough'))
    elif k == 'files':
        files_task(ctx, (case['schema'], case['rows'], 'thorough'))


def coverage(ctx):
    return dict(
        states=ctx.nd('join_cases') + ctx.n('small_inputs'), transitions=ctx.n('loads'),
        traces_validated_against_impl=ctx.n('traces'), evaluations=ctx.n('loads'),
        populations=ctx.n('populations'), cross_model=dict(ordered_schema_pairs=ctx.n('cross_pairs'), loads=ctx.n('cross_loads'),
                                                            what='populations covering the alphabet of schema i are loaded, then every '
                                                            'population of schema j, in a process of its own per task'),
        api_populations=ctx.n('api_cases'), api_populations_with_referential_identifier=ctx.n('api_chained_cases'), order_inputs=ctx.n('small_inputs'),
        distinct_nontrivial=ctx.nd('nontrivial'),
        zip_archives_with_equally_named_members=ctx.n('zip_archives_with_equally_named_members'),
        rule='join: every population of the bounded alphabets per schema, each in 3 (thorough 6) value/insert styles (positional; named '
             'columns reversed; named columns rotated with the names in upper / lower / swapped case); non-trivial = '
             'populations with at least one link; order: every permutation and every contiguous <=3-way split in every call order of '
             'every selected <=6 (7)-statement input; files: every spread of the statements over a two-level directory tree, the same '
             'files one by one, a zip archive with a decoy member and zip archives whose members carry the same full name (%s); api: MetaModel.new with referential values and clone()' % ', '.join(sorted(ZIPDUP_SCHEMES)),
        bounds=dict(schemas=[s.name for s, _, _ in schemas_()], statements_max=6 if ctx.quick else 7),
        exhaustive=not ctx.caps_hit,
    )
