'''
C18 -- one loader builds independent metamodels.

E1 + E3: breadth-first search over all interleavings of

    input(chunk_i)     three valid chunks (schema; instances with links; more instances and an
                       identifier) in any order, each at most once, plus a chunk that is rejected
    build              up to 2 (quick) / 3 (thorough) live metamodels, each with its own IntegerGenerator
                       (main search) or, in the generator family, every pattern of builds with an explicitly
                       given IntegerGenerator / builds without a generator argument
    mutations of any built metamodel: new, delete, attribute write, relate, unrelate,
                       MetaClass.append_attribute / insert_attribute / delete_attribute,
                       define_unique_identifier, define_class

deduplicated by canonical state.  After every step, for EVERY live metamodel k

  (i)  non-interference: xtuml.serialize(M_k) and a snapshot of M_k are unchanged by a step that was not
       addressed to M_k (input, build, mutation of another metamodel);
  (ii) differential: they equal those of a replica = a FRESH loader fed exactly the chunks accepted
       before build k, built once, with exactly the mutations applied to M_k replayed on it; the outcome
       (return value / exception class) of every call equals the replica's.

  (iii) id generators: the value the generator of M_k hands out next (peek) is unchanged by a step not addressed
       to M_k; the generator of M_k is of the class the replica's is, and hands out the same next value when it
       is an IntegerGenerator (ids drawn from a UUIDGenerator are random: in the generator family they are
       replaced by place-holders numbered by first occurrence before texts and snapshots are compared).

Route family: the texts arrive through files (filename_input under several spellings of one path, file_input, input)
and the file is rewritten between the calls; handle family: file_input with file objects that are not at position 0 (one
handle kept open while the file grows, handles the caller advanced, exhausted handles); split family: classes, association and rows arrive in separate chunks
in any order with builds (also refused ones) in between.  Same oracles.

Identity facts (which attribute lists, key lists, index dictionaries, metaclasses, instances are the same
object in two metamodels or in a loader statement) are part of the canonical state as the
implementation-only component; they are recorded, not judged.
'''
import json

from mc import core, explorer

NEEDS_BRIDGEPOINT = False
BUDGET_S = {'quick': 3600, 'thorough': 14400}
ASSUMPTIONS = [
    'one schema family (two classes, one association, identifiers) in three chunks; every chunk accepted at most once, in '
    'any order (instances before their schema included); names and values from one of three isomorphic palettes (VERIF_SEED)',
    'mutations address instances by pool position; at most one "new" per class and metamodel (quick) / two (thorough)',
    'observation = xtuml.serialize(metamodel) (or the exception class it raises, e.g. after an attribute was appended to a '
    'class that has instances) plus a snapshot of classes, attributes, identifiers, instances, attribute values and links '
    'taken through the public attributes of MetaModel / MetaClass / Association',
    'generator family: the same search with the k-th successful build given an explicit IntegerGenerator or no generator '
    'argument, for every pattern other than all-explicit, to depth 4 (quick) / 5 (thorough); ids >= 2^64 (drawn from a '
    'UUIDGenerator) are compared by their pattern of equality only',
    'route family: one file (first holding the first chunk of rows) rewritten with any of the four chunks between input calls; '
    'input through filename_input under three spellings of its path (absolute, symbolic link, relative), file_input and input '
    'of the same text; at most 3 (quick) / 4 (thorough) accepted inputs, one rejected; two live metamodels; mutations new / '
    'delete / relate; depth 5 / 6. The replica is a fresh loader given the texts the file held at each accepted call, '
    'through input()',
    'handle family: file_input with file objects at any position. A file object contributes what is read from its current '
    'position to its end: one handle is opened when the file holds its first chunk and stays open while chunks are appended to '
    'the file (each at most once, at most 3 (quick) / 4 (thorough) in the file), the caller may read lines from it, and it is given '
    'to the loader any number of times (also exhausted); new handles are advanced by 1 (quick) / 0-2 (thorough) lines first. At '
    'most 3 / 4 accepted inputs, one rejected; two live metamodels; mutations delete (quick) / delete, relate (thorough); depth 5 / 6. The replica is a fresh loader given, '
    'through input(), the text between the position of the handle and the end of the file at each accepted call',
    'split family: the schema of the main search in separate chunks (class A + identifier, class B, the association, rows), each '
    'at most once in any order, builds in between -- builds the library refuses (association before its class) included, at '
    'most two per history, counted in the canonical state; mutations delete / relate / unrelate; depth 6 / 7',
    'sharing of immutable or never-mutated objects (key lists of associations, identifier tuples) is not a violation: no '
    'operation of the statement can change them; it is recorded in the canonical state only',
]

PALETTES = [
    dict(A='A', B='B', Z='Z', Name='Name', N='N', Extra='Extra', Pre='Pre', s=['x', 'y', 'w', 'zz']),
    dict(A='Dog', B='Owner', Z='Cat', Name='Label', N='Age', Extra='More', Pre='First', s=["it's", '', 'w w', 'q']),
    dict(A='aa', B='BB', Z='zZ', Name='name', N='n', Extra='extra', Pre='pre', s=['1', 'TRUE', '-- c', ');']),
]
BAD = 3


def uid(n):
    return '"00000000-0000-0000-0000-%012x"' % n


def q(s):
    return "'%s'" % s.replace("'", "''")


BAD_KINDS = ['syntax', 'cardinality', 'character']


def bad_tail(p, kind):
    '''What makes the rejected chunk fail: a syntax error, an illegal cardinality (raised by a grammar action after the
    statements before it were parsed), or an illegal character.'''
    if kind == 'cardinality':
        return 'CREATE ROP REF_ID R9 FROM 2 %s (A_Id) TO 1 %s (Id);\nINSERT INTO %s VALUES (%s, %s);\n' % (
            p['B'], p['A'], p['A'], uid(0x10a), q(p['s'][2]))
    if kind == 'character':
        return '$\n'
    return 'CREATE TABLE ;\n'


def chunks(p, bad_kind='syntax'):
    A, B = p['A'], p['B']
    return [
        'CREATE TABLE %s (Id UNIQUE_ID, %s STRING);\n' % (A, p['Name']) +
        'CREATE TABLE %s (Id UNIQUE_ID, A_Id UNIQUE_ID, %s INTEGER);\n' % (B, p['N']) +
        'CREATE ROP REF_ID R1 FROM MC %s (A_Id) TO 1C %s (Id);\n' % (B, A) +
        'CREATE UNIQUE INDEX I1 ON %s (Id);\n' % A +
        # (round 11, C18-21) an association over two-attribute keys; a later identifier lists the referred attributes the other way round
        'CREATE TABLE %sk (Kx INTEGER, Ky INTEGER);\nCREATE TABLE %sk (Fx INTEGER, Fy INTEGER);\n' % (A, B) +
        'CREATE ROP REF_ID R2 FROM MC %sk (Fx, Fy) TO 1C %sk (Kx, Ky);\n' % (B, A) +
        # a class whose rows may arrive (and be built with guessed types) before this declaration
        'CREATE TABLE %sx (F STRING, G INTEGER);\n' % p['Z'],

        'INSERT INTO %s VALUES (%s, %s);\n' % (A, uid(0x101), q(p['s'][0])) +
        'INSERT INTO %s VALUES (%s, %s, 1);\n' % (B, uid(0x201), uid(0x101)) +
        # (rows in the named-column form, columns in declared and in another order: round 9, C18-18)
        'INSERT INTO %s (Id, A_Id, %s) VALUES (%s, %s, 2);\n' % (B, p['N'], uid(0x202), uid(0)) +
        'INSERT INTO %sk VALUES (1, 2);\nINSERT INTO %sk VALUES (2, 1);\nINSERT INTO %sk VALUES (2, 1);\n' % (A, A, B) +
        'INSERT INTO %sx VALUES (1, 3);\n' % p['Z'],

        'INSERT INTO %s (%s, Id) VALUES (%s, %s);\n' % (A, p['Name'], q(p['s'][1]), uid(0x102)) +
        'INSERT INTO %s VALUES (%s, %s, 3);\n' % (B, uid(0x203), uid(0x102)) +
        'CREATE UNIQUE INDEX I1 ON %s (Id);\n' % B,

        # rejected as a whole: the first statement is fine, the second is not
        'INSERT INTO %s VALUES (%s, %s);\n' % (A, uid(0x109), q(p['s'][3])) + bad_tail(p, bad_kind),
    ]


class World(object):
    pass


class Built(object):
    def __init__(self, m, replica, chunks_at_build):
        self.m = m
        self.replica = replica
        self.chunks = list(chunks_at_build)
        self.muts = []


def pool(m, kind):
    mc = m.metaclasses.get(kind.upper())
    return list(mc.storage) if mc else []


def mutate(xtuml, m, op):
    '''Apply one mutation (op = ['mut', k, name, args...]) to metamodel m; outcome as text.'''
    name, a = op[2], op[3:]
    try:
        if name == 'new':
            m.new(a[0])
            return 'ok'
        if name == 'delete':
            return repr(xtuml.delete(pool(m, a[0])[a[1]]))
        if name == 'set':
            setattr(pool(m, a[0])[a[1]], a[2], a[3])
            return 'ok'
        if name in ('relate', 'unrelate'):
            fn = xtuml.relate if name == 'relate' else xtuml.unrelate
            return repr(fn(pool(m, a[0])[a[1]], pool(m, a[2])[a[3]], 1))
        if name == 'append_attr':
            m.find_metaclass(a[0]).append_attribute(a[1], a[2])
            return 'ok'
        if name == 'insert_attr':
            m.find_metaclass(a[0]).insert_attribute(a[1], a[2], a[3])
            return 'ok'
        if name == 'delete_attr':
            m.find_metaclass(a[0]).delete_attribute(a[1])
            return 'ok'
        if name == 'define_uid':
            m.define_unique_identifier(a[0], a[1], *a[2])
            return 'ok'
        if name == 'define_class':
            m.define_class(a[0], [tuple(x) for x in a[1]])
            return 'ok'
    except Exception as e:
        return type(e).__name__
    raise ValueError(op)


def snapshot(m):
    '''Classes, attributes, identifiers, instances, values and links of a metamodel (JSON-able).'''
    label = {}
    classes = []
    for ukind, mc in m.metaclasses.items():
        for i, inst in enumerate(mc.storage):
            label.setdefault(id(inst), '%s#%d' % (ukind, i))
    for ukind, mc in m.metaclasses.items():
        insts = []
        for inst in mc.storage:
            vals = []
            for name, _ in mc.attributes:
                try:
                    vals.append(repr(getattr(inst, name)))
                except AttributeError:
                    vals.append('<no value>')
            owner = getattr(type(inst), '__metaclass__', None)
            insts.append([vals, 'own' if owner is mc else 'foreign-class'])
        classes.append([ukind, mc.kind, [list(a) for a in mc.attributes],
                        [[n, list(a)] for n, a in mc.indices.items()],
                        sorted(mc.identifying_attributes), sorted(mc.referential_attributes), insts])
    links = []
    for ass in m.associations:
        for link in (ass.source_link, ass.target_link):
            pairs = []
            for x, ys in link.items():
                pairs.append([label.get(id(x), '?'), [label.get(id(y), '?') for y in ys]])
            links.append([ass.rel_id, link.from_metaclass.kind, link.to_metaclass.kind, link.phrase,
                          link.many, link.conditional, pairs])
    return [classes, links]


_UUID_RE = None


def mask_fresh(obs):
    '''Ids drawn from a UUIDGenerator (>= 2^64; every id of the input and of IntegerGenerators is far below) are replaced
    by place-holders numbered by first occurrence, separately in the text and in the snapshot.'''
    import re
    global _UUID_RE
    if _UUID_RE is None:
        _UUID_RE = re.compile(r'"([0-9a-fA-F]{8})-([0-9a-fA-F]{4})-([0-9a-fA-F]{4})-([0-9a-fA-F]{4})-([0-9a-fA-F]{12})"')
    seen = {}

    def sub(mo):
        v = int(''.join(mo.groups()), 16)
        if v < 2 ** 64:
            return mo.group(0)
        return '"<fresh id %d>"' % seen.setdefault(v, len(seen) + 1)
    text = _UUID_RE.sub(sub, obs[0])
    seen2 = {}

    def walk(x):
        if isinstance(x, list):
            return [walk(y) for y in x]
        if isinstance(x, str) and x.isdigit() and len(x) >= 20 and int(x) >= 2 ** 64:
            return '<fresh id %d>' % seen2.setdefault(x, len(seen2) + 1)
        return x
    return [text, walk(obs[1])]


def observe(xtuml, m, mask=False):
    try:
        text = xtuml.serialize(m)
    except Exception as e:
        text = 'serialize raises %s' % type(e).__name__
    obs = [text, snapshot(m)]
    return mask_fresh(obs) if mask else obs


def gen_facts(xtuml, m):
    '''[class name of the id generator, the value it hands out next when that is deterministic]'''
    g = m.id_generator
    return [type(g).__name__, g.peek() if isinstance(g, xtuml.IntegerGenerator) else 'random']


def first_diff(a, b):
    if a[0] != b[0]:
        la, lb = a[0].splitlines(), b[0].splitlines()
        for i in range(max(len(la), len(lb))):
            x = la[i] if i < len(la) else '<end>'
            y = lb[i] if i < len(lb) else '<end>'
            if x != y:
                return 'serialize line %d: %r vs %r' % (i + 1, x, y)
    sa, sb = json.dumps(a[1]), json.dumps(b[1])
    if sa != sb:
        for i in range(min(len(sa), len(sb))):
            if sa[i] != sb[i]:
                return 'snapshot: ...%s vs ...%s' % (sa[max(0, i - 60):i + 60], sb[max(0, i - 60):i + 60])
        return 'snapshot: one is a prefix of the other'
    return None


class LoaderModel(explorer.Model):
    limit_s = 20.0
    family = None          # None: main search / generator family
    prefix = ''            # family part of the signatures
    mut_names = None       # None: every mutation of the menu
    bad = BAD              # index of the chunk that is rejected

    def __init__(self, tier, seed=0, max_mm=None, cap_new=None, gens=None, bad_kind='syntax'):
        # gens[k]: 'explicit' = the k-th successful build is given its own IntegerGenerator, 'default' = no generator
        # argument (builds beyond the pattern: explicit)
        self.gens = list(gens or [])
        self.mask = 'default' in self.gens
        self.tier = tier
        self.seed = seed
        self.p = PALETTES[seed % len(PALETTES)]
        self.bad_kind = bad_kind
        self.chunks = chunks(self.p, bad_kind)
        self.max_mm = max_mm or (2 if tier == 'quick' else 3)
        self.cap_new = cap_new or (1 if tier == 'quick' else 2)

    def case(self, hist, op):
        c = dict(hist=hist, op=op, tier=self.tier, seed=self.seed, max_mm=self.max_mm, cap_new=self.cap_new)
        if self.gens:
            c['gens'] = self.gens
        if getattr(self, 'bad_kind', 'syntax') != 'syntax':
            c['bad_kind'] = self.bad_kind
        if self.family:
            c['family'] = self.family
        return c

    def text_of(self, entry):
        '''An accepted input is recorded as the index of its chunk, or (handle family) as the text itself.'''
        return self.chunks[entry] if isinstance(entry, int) else entry

    def gen_mode(self, w):
        k = len(w.mms)
        return self.gens[k] if k < len(self.gens) else 'explicit'

    def obs(self, xtuml, m):
        return observe(xtuml, m, self.mask)

    # -- both sides ---------------------------------------------------------
    def build(self, hist):
        import xtuml
        w = World()
        w.loader = xtuml.ModelLoader()
        w.accepted = []
        w.rejected = 0
        w.mms = []
        for op in hist:
            self.step(w, op)
        return w

    def step(self, w, op):
        '''Apply op to the implementation and to the reference; returns (got, expected).'''
        import xtuml
        if op[0] == 'input':
            exp = 'ParsingException' if op[1] == self.bad else 'ok'
            try:
                w.loader.input(self.chunks[op[1]])
                got = 'ok'
                w.accepted.append(op[1])
            except Exception as e:
                got = type(e).__name__
                w.rejected += 1
            return got, exp
        if op[0] == 'build':
            # reference first: a fresh loader fed exactly the accepted chunks, built once
            # (round 12, C18-24: the reference gets the accepted input as ONE text -- "exactly the input accepted up to its build",
            # however it was cut into calls)
            fresh = xtuml.ModelLoader()
            fresh.input(''.join(self.text_of(i) for i in w.accepted))
            explicit = self.gen_mode(w) == 'explicit'
            try:
                replica = fresh.build_metamodel(xtuml.IntegerGenerator()) if explicit else fresh.build_metamodel()
                exp = 'ok'
            except Exception as e:
                replica, exp = None, type(e).__name__
            try:
                m = w.loader.build_metamodel(xtuml.IntegerGenerator()) if explicit else w.loader.build_metamodel()
                got = 'ok'
            except Exception as e:
                m, got = None, type(e).__name__
            if m is not None and replica is not None:
                w.mms.append(Built(m, replica, w.accepted))
            return got, exp
        if op[0] == 'mut':
            e = w.mms[op[1]]
            got = mutate(xtuml, e.m, op)
            exp = mutate(xtuml, e.replica, op)
            e.muts.append(op)
            return got, exp
        raise ValueError(op)

    # -- menu ------------------------------------------------------------------
    def enabled(self, w):
        p = self.p
        A, B, Z = p['A'], p['B'], p['Z']
        ops = self.input_ops(w)
        ops += [o for o in self.mut_ops(w) if self.mut_names is None or o[2] in self.mut_names]
        return ops

    def input_ops(self, w):
        ops = []
        for i in range(len(self.chunks)):
            if i == BAD:
                if w.rejected == 0:
                    ops.append(['input', i])
            elif i not in w.accepted:
                ops.append(['input', i])
        if len(w.mms) < self.max_mm:
            ops.append(['build'])
        return ops

    def mut_ops(self, w):
        p = self.p
        A, B, Z = p['A'], p['B'], p['Z']
        ops = []
        for k, e in enumerate(w.mms):
            r = e.replica
            mca, mcb = r.metaclasses.get(A.upper()), r.metaclasses.get(B.upper())
            news = dict((kd, sum(1 for o in e.muts if o[2] == 'new' and o[3] == kd)) for kd in (A, B))
            if mca is not None:
                names = mca.attribute_names
                if news[A] < self.cap_new:
                    ops.append(['mut', k, 'new', A])
                if mca.storage:
                    ops.append(['mut', k, 'delete', A, 0])
                    if p['Name'] in names:
                        ops.append(['mut', k, 'set', A, 0, p['Name'].lower(), p['s'][2]])
                    ops.append(['mut', k, 'set', A, len(mca.storage) - 1, 'Id', 0x777])
                if p['Extra'] not in names:
                    ops.append(['mut', k, 'append_attr', A, p['Extra'], 'INTEGER'])
                if p['Name'] in names:
                    ops.append(['mut', k, 'delete_attr', A, p['Name']])
                    if 'I2' not in mca.indices:
                        ops.append(['mut', k, 'define_uid', A, 'I2', [p['Name']]])
            if mcb is not None:
                names = mcb.attribute_names
                if news[B] < self.cap_new:
                    ops.append(['mut', k, 'new', B])
                if p['Pre'] not in names:
                    ops.append(['mut', k, 'insert_attr', B, 0, p['Pre'], 'STRING'])
                if mcb.storage:
                    ops.append(['mut', k, 'delete', B, 0])
                if 'A_Id' in names:
                    ops.append(['mut', k, 'delete_attr', B, 'A_Id'])      # an attribute that is an association key
            if mca is not None and mcb is not None and r.associations and mca.storage and mcb.storage:
                ops.append(['mut', k, 'relate', B, len(mcb.storage) - 1, A, 0])
                ops.append(['mut', k, 'unrelate', B, 0, A, 0])
            mck = r.metaclasses.get((A + 'k').upper())
            if mck is not None and 'I3' not in mck.indices and r.associations:
                ops.append(['mut', k, 'define_uid', A + 'k', 'I3', ['Ky', 'Kx']])
            if Z.upper() not in r.metaclasses:
                ops.append(['mut', k, 'define_class', Z, [['Id', 'UNIQUE_ID'], ['V', 'STRING']]])
            elif not r.metaclasses[Z.upper()].storage:
                ops.append(['mut', k, 'new', Z])
        return ops

    # -- canonical state -----------------------------------------------------------
    def sharing(self, w):
        '''Identity facts visible from outside (implementation-only component of the state).'''
        from xtuml import load
        facts = []
        stmts = w.loader.statements
        for k, e in enumerate(w.mms):
            m = e.m
            for ukind, mc in m.metaclasses.items():
                for s in stmts:
                    if isinstance(s, load.CreateClassStmt) and s.attributes is mc.attributes:
                        facts.append(('attributes-are-statement-list', k, ukind))
                    if getattr(s, 'attributes', None) is not None and any(s.attributes is v for v in mc.indices.values()):
                        facts.append(('identifier-is-statement-list', k, ukind))
                for j in range(k):
                    o = w.mms[j].m.metaclasses.get(ukind)
                    if o is None:
                        continue
                    if o is mc:
                        facts.append(('same-metaclass', j, k, ukind))
                    if o.attributes is mc.attributes:
                        facts.append(('same-attribute-list', j, k, ukind))
                    if o.indices is mc.indices:
                        facts.append(('same-index-dict', j, k, ukind))
                    if o.storage is mc.storage:
                        facts.append(('same-storage', j, k, ukind))
                    elif set(map(id, o.storage)) & set(map(id, mc.storage)):
                        facts.append(('same-instances', j, k, ukind))
                    if o.clazz is mc.clazz:
                        facts.append(('same-class-object', j, k, ukind))
            for ass in m.associations:
                for s in stmts:
                    if isinstance(s, load.CreateAssociationStmt) and (ass.source_keys is s.source_keys or
                                                                      ass.target_keys is s.target_keys):
                        facts.append(('keys-are-statement-list', k, ass.rel_id))
                for j in range(k):
                    for o in w.mms[j].m.associations:
                        if o is ass:
                            facts.append(('same-association', j, k, ass.rel_id))
                        elif o.source_keys is ass.source_keys or o.target_keys is ass.target_keys:
                            facts.append(('same-key-list', j, k, ass.rel_id))
                        if o.source_link is ass.source_link or o.target_link is ass.target_link:
                            facts.append(('same-link', j, k, ass.rel_id))
            for j in range(k):
                if w.mms[j].m is m:
                    facts.append(('same-metamodel', j, k))
                if w.mms[j].m.id_generator is m.id_generator:
                    facts.append(('same-id-generator', j, k))
        return sorted(set(facts))

    def canon(self, w):
        import xtuml
        mm = []
        for e in w.mms:
            mm.append([e.chunks, core.h64(json.dumps(self.obs(xtuml, e.replica))), gen_facts(xtuml, e.replica),
                       sorted((kd, sum(1 for o in e.muts if o[2] == 'new' and o[3] == kd)) for kd in (self.p['A'], self.p['B']))])
        return json.dumps([w.accepted, w.rejected, mm, self.sharing(w)])

    # -- transition + oracle -----------------------------------------------------------
    def apply(self, ctx, w, op, hist):
        import xtuml
        name = op[0] if op[0] != 'mut' else op[2]
        case = self.case(hist, op)

        def bad(kind, msg, exp=None, got=None):
            ctx.violation('c18:%s%s:%s' % (self.prefix, name, kind), case, 'history %s, then %s: %s' % (json.dumps(hist), json.dumps(op), msg),
                          exp, got, unit_test=unit_test(self, hist, op))
        before = [self.obs(xtuml, e.m) for e in w.mms]
        peek_before = [e.m.id_generator.peek() for e in w.mms]
        nbefore = len(w.mms)
        got, exp = self.step(w, op)
        ctx.count('traces')
        ctx.distinct('outcomes', (name, got))
        if got != exp:
            bad('outcome', 'outcome %s, but %s on a fresh loader fed the same input' % (got, exp), exp, got)
            return False
        target = op[1] if op[0] == 'mut' else None
        ok = True
        for k, e in enumerate(w.mms):
            now = self.obs(xtuml, e.m)
            if k < nbefore and k != target:
                ctx.count('noninterference_comparisons')
                ctx.count('generator_comparisons')
                peek_now = e.m.id_generator.peek()
                if peek_now != peek_before[k]:
                    what = {'input': 'further input to the loader', 'build': 'another build'}.get(
                        op[0], 'a change made to metamodel %s' % target)
                    bad('generator-interference', '%s changes the identifier that metamodel %d (built after chunks %s) hands '
                        'out next: id_generator.peek() was %r, is %r%s' %
                        (what, k, e.chunks, peek_before[k], peek_now,
                         '; it shares its id generator object with metamodel(s) %s' %
                         [j for j, o in enumerate(w.mms) if j != k and o.m.id_generator is e.m.id_generator]
                         if any(j != k and o.m.id_generator is e.m.id_generator for j, o in enumerate(w.mms)) else ''),
                        peek_before[k], peek_now)
                    ok = False
                    continue
                d = first_diff(before[k], now)
                if d:
                    what = {'input': 'further input to the loader', 'build': 'another build'}.get(
                        op[0], 'a change made to metamodel %s' % target)
                    bad('interference', '%s is visible in metamodel %d (built after chunks %s): %s' %
                        (what, k, e.chunks, d), before[k], now)
                    ok = False
                    continue
            ctx.count('differential_comparisons')
            want = self.obs(xtuml, e.replica)
            d = first_diff(want, now)
            if d:
                kind = 'later-build' if (op[0] == 'build' and k == len(w.mms) - 1 and k > 0) else 'differs-from-fresh-loader'
                bad(kind, 'metamodel %d (built after chunks %s, own mutations %s) differs from a fresh loader fed the same '
                    'chunks with the same mutations: %s' % (k, e.chunks, json.dumps([o[2:] for o in e.muts]), d), want, now)
                ok = False
                continue
            gw, gn = gen_facts(xtuml, e.replica), gen_facts(xtuml, e.m)
            if gw != gn:
                bad('generator-differs-from-fresh-loader', 'the id generator of metamodel %d (built after chunks %s, own mutations '
                    '%s) is %s, but %s in a fresh loader fed the same chunks and built the same way' %
                    (k, e.chunks, json.dumps([o[2:] for o in e.muts]), gn, gw), gw, gn)
                ok = False
        if op[0] == 'build' and got == 'ok':
            ctx.count('builds_compared')
            if any(e.muts for e in w.mms[:-1]):
                ctx.count('builds_after_mutation_of_an_earlier_metamodel')
            if len(w.mms) > 1 and w.mms[-1].chunks != w.mms[-2].chunks:
                ctx.count('builds_after_further_input')
        if op[0] == 'build' and got != 'ok':
            ctx.count('builds_rejected')
        if op[0] == 'mut' and len(w.mms) > 1:
            ctx.count('mutations_with_other_metamodels_alive')
        if op[0] == 'input' and w.mms:
            ctx.count('inputs_after_a_build')
        if op[0] == 'input' and got != 'ok':
            ctx.count('rejected_inputs')
        return ok

    def probes(self, ctx, w, hist):
        if len(w.mms) >= 2:
            ctx.count('states_with_several_metamodels')
            if any(e.muts for e in w.mms):
                ctx.count('states_with_several_metamodels_one_mutated')
        for f in self.sharing(w):
            ctx.distinct('identity_facts', (f[0],) + tuple(f[-1:]))


def unit_test(model, hist, op):
    lines = ['import xtuml', 'chunks = %r' % (model.chunks,), 'l = xtuml.ModelLoader()', 'm = []',
             'def pool(mm, kind): return list(mm.select_many(kind))']
    nbuilt = [0]      # (rejected builds do not occur in reported histories of the generator family's patterns)

    if model.family == 'routes':
        lines += ['import os, tempfile', "path = os.path.join(tempfile.mkdtemp(), 'data.sql')",
                  "link = os.path.join(os.path.dirname(path), 'same.sql'); os.symlink(path, link)",
                  'spellings = dict(abs=path, link=link, rel=os.path.relpath(path))',
                  "def write(i):\n    with open(path, 'w') as f: f.write(chunks[i])\n    return i",
                  'content = write(1)']

    if model.family == 'handles':
        lines += ['import os, tempfile', "path = os.path.join(tempfile.mkdtemp(), 'data.sql')",
                  "with open(path, 'w') as f: f.write(chunks[1])",
                  'h = open(path)          # the handle that stays open',
                  'def skip(n):\n    f = open(path)\n    for _ in range(n): f.readline()\n    return f']

    def stmt(o):
        if o[0] == 'append':
            return "with open(path, 'a') as f: f.write(chunks[%d])" % o[1]
        if o[0] == 'advance':
            return 'h.readline()'
        if o[0] == 'file_input' and model.family == 'handles':
            return 'try: l.file_input(%s)\nexcept xtuml.ParsingException: pass' % ('h' if o[1] == 'same' else 'skip(%d)' % o[2])
        if o[0] == 'write':
            return 'content = write(%d)' % o[1]
        if o[0] == 'filename_input':
            return 'try: l.filename_input(spellings[%r])\nexcept xtuml.ParsingException: pass' % o[1]
        if o[0] == 'file_input':
            return 'try: l.file_input(open(path))\nexcept xtuml.ParsingException: pass'
        if o[0] == 'text_input':
            return 'try: l.input(chunks[content])\nexcept xtuml.ParsingException: pass'
        if o[0] == 'build' and model.family:
            return 'try: m.append(l.build_metamodel(xtuml.IntegerGenerator()))\nexcept xtuml.MetaException as e: print(type(e))'
        if o[0] == 'input':
            return 'try: l.input(chunks[%d])\nexcept xtuml.ParsingException: pass' % o[1]
        if o[0] == 'build':
            nbuilt[0] += 1
            mode = model.gens[nbuilt[0] - 1] if nbuilt[0] <= len(model.gens) else 'explicit'
            return 'm.append(l.build_metamodel(%s))' % ('xtuml.IntegerGenerator()' if mode == 'explicit' else '')
        k, name, a = o[1], o[2], o[3:]
        mm = 'm[%d]' % k
        if name == 'new':
            return '%s.new(%r)' % (mm, a[0])
        if name == 'delete':
            return 'xtuml.delete(pool(%s, %r)[%d])' % (mm, a[0], a[1])
        if name == 'set':
            return 'setattr(pool(%s, %r)[%d], %r, %r)' % (mm, a[0], a[1], a[2], a[3])
        if name in ('relate', 'unrelate'):
            return 'xtuml.%s(pool(%s, %r)[%d], pool(%s, %r)[%d], 1)' % (name, mm, a[0], a[1], mm, a[2], a[3])
        if name == 'append_attr':
            return '%s.find_metaclass(%r).append_attribute(%r, %r)' % (mm, a[0], a[1], a[2])
        if name == 'insert_attr':
            return '%s.find_metaclass(%r).insert_attribute(%r, %r, %r)' % (mm, a[0], a[1], a[2], a[3])
        if name == 'delete_attr':
            return '%s.find_metaclass(%r).delete_attribute(%r)' % (mm, a[0], a[1])
        if name == 'define_uid':
            return '%s.define_unique_identifier(%r, %r, *%r)' % (mm, a[0], a[1], a[2])
        if name == 'define_class':
            return '%s.define_class(%r, %r)' % (mm, a[0], [tuple(x) for x in a[1]])
        return '# %r' % (o,)
    for o in hist:
        lines.append(stmt(o))
    lines.append('before = [xtuml.serialize(x) for x in m]')
    lines.append(stmt(op) + '      # <- the step after which a metamodel differs')
    lines.append('after = [xtuml.serialize(x) for x in m]')
    lines.append('# compare before/after for the metamodels the step did not address, and each with a fresh loader:')
    lines.append('print([b == a for b, a in zip(before, after)])')
    lines.append('# and the ids handed out next: [x.id_generator.peek() for x in m] before / after')
    return '\n'.join(lines)


# ---------------------------------------------------------------------------------------------------------------------
# route family: the same texts given through files -- filename_input under several spellings of one path (absolute,
# through a symbolic link, relative), file_input, input -- with the file REWRITTEN between input calls
# ---------------------------------------------------------------------------------------------------------------------
ROUTE_ALIASES = ['abs', 'link', 'rel']
ROUTE_MAX_INPUTS = {'quick': 3, 'thorough': 4}
ROUTE_DEPTH = {'quick': 5, 'thorough': 6}
ROUTE_MUTS = ('new', 'delete', 'relate')
_route_worlds = 0


class RouteModel(LoaderModel):
    family = 'routes'
    prefix = 'routes:'
    mut_names = ROUTE_MUTS

    def __init__(self, tier, seed=0):
        LoaderModel.__init__(self, tier, seed, max_mm=2, cap_new=1)
        self.max_inputs = ROUTE_MAX_INPUTS[tier]

    def build(self, hist):
        import os
        import shutil
        from mc import bootstrap
        # a directory of its own for every world: nothing that remembers paths can carry over from one history to another
        global _route_worlds
        _route_worlds += 1
        top = os.path.join(bootstrap.tmpdir(), 'c18-routes-%d' % os.getpid())
        d = os.path.join(top, 'w%d' % _route_worlds)
        os.makedirs(d, exist_ok=True)
        shutil.rmtree(os.path.join(top, 'w%d' % (_route_worlds - 3)), ignore_errors=True)
        paths = dict(abs=os.path.join(d, 'data.sql'), link=os.path.join(d, 'same.sql'))
        if not os.path.islink(paths['link']):
            os.symlink(paths['abs'], paths['link'])
        paths['rel'] = os.path.relpath(paths['abs'])
        self.paths = paths
        self.write(1)                  # the file holds the first chunk of rows
        w = World()
        import xtuml
        w.loader = xtuml.ModelLoader()
        w.accepted = []
        w.rejected = 0
        w.mms = []
        w.content = 1
        for op in hist:
            self.step(w, op)
        return w

    def write(self, i):
        with open(self.paths['abs'], 'w') as f:
            f.write(self.chunks[i])

    def step(self, w, op):
        if op[0] == 'write':
            self.write(op[1])
            w.content = op[1]
            return 'ok', 'ok'
        if op[0] in ('filename_input', 'file_input', 'text_input'):
            exp = 'ParsingException' if w.content == BAD else 'ok'
            try:
                if op[0] == 'filename_input':
                    w.loader.filename_input(self.paths[op[1]])
                elif op[0] == 'file_input':
                    with open(self.paths['abs'], 'r') as f:
                        w.loader.file_input(f)
                else:
                    w.loader.input(self.chunks[w.content])
                got = 'ok'
                w.accepted.append(w.content)
            except Exception as e:
                got = type(e).__name__
                w.rejected += 1
            return got, exp
        return LoaderModel.step(self, w, op)

    def input_ops(self, w):
        ops = []
        for i in range(len(self.chunks)):
            if i != w.content and not (i == BAD and w.rejected):
                ops.append(['write', i])
        if len(w.accepted) < self.max_inputs and not (w.content == BAD and w.rejected):
            for a in ROUTE_ALIASES:
                ops.append(['filename_input', a])
            ops.append(['file_input'])
            ops.append(['text_input'])
        if len(w.mms) < self.max_mm:
            ops.append(['build'])
        return ops

    def canon(self, w):
        return json.dumps([w.content, LoaderModel.canon(self, w)])


# ---------------------------------------------------------------------------------------------------------------------
# split family: the schema arrives statement by statement in any order (an association before its classes included),
# with builds -- also builds that are refused -- in between
# ---------------------------------------------------------------------------------------------------------------------
SPLIT_DEPTH = {'quick': 6, 'thorough': 7}
SPLIT_MUTS = ('delete', 'relate', 'unrelate')
SPLIT_MAX_REFUSED = 2


def split_chunks(p):
    A, B = p['A'], p['B']
    return [
        # (round 12, C18-24) the text that declares the first class does not begin with the declaration
        'CREATE UNIQUE INDEX I1 ON %s (Id);\nCREATE TABLE %s (Id UNIQUE_ID, %s STRING);\n' % (A, A, p['Name']),
        'CREATE TABLE %s (Id UNIQUE_ID, A_Id UNIQUE_ID, %s INTEGER);\n' % (B, p['N']),
        'CREATE ROP REF_ID R1 FROM MC %s (A_Id) TO 1C %s (Id);\n' % (B, A),
        'INSERT INTO %s VALUES (%s, %s);\n' % (A, uid(0x101), q(p['s'][0])) +
        'INSERT INTO %s VALUES (%s, %s, 1);\n' % (B, uid(0x201), uid(0x101)) +
        'INSERT INTO %s VALUES (%s, %s, 2);\n' % (B, uid(0x202), uid(0)),
    ]


class SplitModel(LoaderModel):
    family = 'split'
    prefix = 'split:'
    mut_names = SPLIT_MUTS

    def __init__(self, tier, seed=0):
        LoaderModel.__init__(self, tier, seed, max_mm=2, cap_new=1)
        self.chunks = split_chunks(self.p)

    bad = None

    def step(self, w, op):
        got, exp = LoaderModel.step(self, w, op)
        if op[0] == 'build' and exp != 'ok':
            w.refused = getattr(w, 'refused', 0) + 1
        return got, exp

    def input_ops(self, w):
        ops = [['input', i] for i in range(len(self.chunks)) if i not in w.accepted]
        if len(w.mms) < self.max_mm and getattr(w, 'refused', 0) < SPLIT_MAX_REFUSED:
            ops.append(['build'])
        return ops

    def canon(self, w):
        # a refused build leaves the reference state alone; it is part of the state so that histories continue after it
        return json.dumps([getattr(w, 'refused', 0), LoaderModel.canon(self, w)])


# ---------------------------------------------------------------------------------------------------------------------
# handle family (part of the route exploration): file_input with file objects that are NOT at position 0 -- one handle
# kept open and given to the loader again after the file grew, a handle the caller advanced past the first statement(s),
# an exhausted handle.  A file object contributes what is read from its current position to its end.
# ---------------------------------------------------------------------------------------------------------------------
HANDLE_DEPTH = {'quick': 5, 'thorough': 6}
HANDLE_MAX_INPUTS = {'quick': 3, 'thorough': 4}
HANDLE_MUTS = {'quick': ('delete',), 'thorough': ('delete', 'relate')}
HANDLE_SKIPS = {'quick': (1,), 'thorough': (0, 1, 2)}
HANDLE_MAX_CHUNKS = {'quick': 3, 'thorough': 4}
BAD_MARK = 'CREATE TABLE ;'
_handle_worlds = 0


def after_lines(text, pos, n):
    '''Position after n readline() calls from pos.'''
    for _ in range(n):
        k = text.find('\n', pos)
        pos = len(text) if k < 0 else k + 1
    return pos


class HandleModel(LoaderModel):
    family = 'handles'
    prefix = 'handles:'

    def __init__(self, tier, seed=0):
        LoaderModel.__init__(self, tier, seed, max_mm=2, cap_new=1)
        self.max_inputs = HANDLE_MAX_INPUTS[tier]
        self.mut_names = HANDLE_MUTS[tier]
        self.skips = HANDLE_SKIPS[tier]
        self.max_chunks = HANDLE_MAX_CHUNKS[tier]

    def build(self, hist):
        import os
        import shutil
        import xtuml
        from mc import bootstrap
        global _handle_worlds
        _handle_worlds += 1
        top = os.path.join(bootstrap.tmpdir(), 'c18-handles-%d' % os.getpid())
        d = os.path.join(top, 'w%d' % _handle_worlds)
        os.makedirs(d, exist_ok=True)
        shutil.rmtree(os.path.join(top, 'w%d' % (_handle_worlds - 3)), ignore_errors=True)
        w = World()
        w.path = os.path.join(d, 'data.sql')
        with open(w.path, 'w') as f:
            f.write(self.chunks[1])            # the file holds the first chunk of rows
        w.file_chunks = [1]
        w.content = self.chunks[1]             # reference: what the file holds
        w.handle = open(w.path, 'r')           # the one handle that stays open
        w.pos = 0                              # reference: how far that handle has been read
        w.loader = xtuml.ModelLoader()
        w.accepted = []
        w.rejected = 0
        w.mms = []
        w.last_from = None
        for op in hist:
            self.step(w, op)
        return w

    def step(self, w, op):
        if op[0] == 'append':
            with open(w.path, 'a') as f:
                f.write(self.chunks[op[1]])
            w.file_chunks.append(op[1])
            w.content += self.chunks[op[1]]
            return 'ok', 'ok'
        if op[0] == 'advance':
            # the caller reads one line from the open handle
            got = w.handle.readline()
            new = after_lines(w.content, w.pos, 1)
            exp = w.content[w.pos:new]
            w.pos = new
            return repr(got), repr(exp)
        if op[0] == 'file_input':
            if op[1] == 'same':
                f, start = w.handle, w.pos
                w.pos = len(w.content)
            else:
                f = open(w.path, 'r')
                for _ in range(op[2]):
                    f.readline()
                start = after_lines(w.content, 0, op[2])
            text = w.content[start:]
            w.last_from = start
            exp = 'ParsingException' if BAD_MARK in text else 'ok'
            try:
                w.loader.file_input(f)
                got = 'ok'
                w.accepted.append(text)
            except Exception as e:
                got = type(e).__name__
                w.rejected += 1
            finally:
                if f is not w.handle:
                    f.close()
            return got, exp
        return LoaderModel.step(self, w, op)

    def input_ops(self, w):
        ops = []
        for i in range(len(self.chunks)):
            if i not in w.file_chunks and not (i == BAD and w.rejected) and len(w.file_chunks) < self.max_chunks:
                ops.append(['append', i])
        if w.pos < len(w.content):
            ops.append(['advance'])
        if len(w.accepted) < self.max_inputs:
            cands = [(['file_input', 'same'], w.pos)]
            for n in self.skips:
                start = after_lines(w.content, 0, n)
                if n == 0 or start < len(w.content):
                    cands.append((['file_input', 'skip', n], start))
            for op, start in cands:
                # one rejected input per history
                if not (w.rejected and BAD_MARK in w.content[start:]):
                    ops.append(op)
        if len(w.mms) < self.max_mm:
            ops.append(['build'])
        return ops

    def apply(self, ctx, w, op, hist):
        ok = LoaderModel.apply(self, ctx, w, op, hist)
        if op[0] == 'file_input':
            ctx.count('handle_inputs')
            if w.last_from:
                ctx.count('handle_inputs_not_from_position_0')
                if op[1] == 'same' and len(w.file_chunks) > 1:
                    ctx.count('handle_inputs_same_handle_after_the_file_grew')
            if w.last_from == len(w.content):
                ctx.count('handle_inputs_exhausted_handle')
            if w.mms:
                ctx.count('handle_inputs_after_a_build')
        return ok

    def canon(self, w):
        import xtuml
        mm = []
        for e in w.mms:
            mm.append([core.h64(json.dumps(e.chunks)), core.h64(json.dumps(self.obs(xtuml, e.replica))), gen_facts(xtuml, e.replica),
                       sorted((kd, sum(1 for o in e.muts if o[2] == 'new' and o[3] == kd)) for kd in (self.p['A'], self.p['B']))])
        return json.dumps([w.file_chunks, w.pos, core.h64(json.dumps(w.accepted)), w.rejected, mm, self.sharing(w)])


FAMILY_MODELS = {'routes': RouteModel, 'split': SplitModel, 'handles': HandleModel}


DEPTH = {'quick': 6, 'thorough': 7}
GEN_DEPTH = {'quick': 4, 'thorough': 5}


def gen_patterns(n):
    import itertools
    return [list(p) for p in itertools.product(('explicit', 'default'), repeat=n) if 'default' in p]


def run(ctx):
    m = LoaderModel(ctx.tier, ctx.seed)
    res = explorer.bfs(ctx, m, max_depth=DEPTH[ctx.tier], chunk=8, label='loader')
    print('  states=%d depth=%d closed=%s t=%.0fs' % (res['states'], res['depth'], res['closed'], ctx.elapsed()), flush=True)
    # the depth bound is the stated bound of this check, not a cap that was hit unexpectedly
    ctx.caps_hit[:] = [c for c in ctx.caps_hit if 'depth bound' not in c]
    hs = sorted(res['seen'].values(), key=lambda h: (len(h), repr(h)))
    for h in (hs[len(hs) // 3], hs[2 * len(hs) // 3], hs[-1]):
        ctx.sample(dict(history=h))
    # generator family: every pattern of explicit / default generators over the builds
    for gi, gens in enumerate(gen_patterns(m.max_mm)):
        # (the searches of this family also take turns in what makes the rejected chunk fail)
        gm = LoaderModel(ctx.tier, ctx.seed, gens=gens, bad_kind=BAD_KINDS[(gi + 1) % len(BAD_KINDS)])
        label = 'generators-' + '-'.join(g[0] for g in gens) + ':' + gm.bad_kind
        r2 = explorer.bfs(ctx, gm, max_depth=GEN_DEPTH[ctx.tier], chunk=8, label=label)
        print('  %s: states=%d depth=%d t=%.0fs' % (label, r2['states'], r2['depth'], ctx.elapsed()), flush=True)
        ctx.count('generator_family_states', r2['states'])
    # route family and split family
    before = dict(ctx.counts)
    for fam, depth in (('routes', ROUTE_DEPTH[ctx.tier]), ('handles', HANDLE_DEPTH[ctx.tier]), ('split', SPLIT_DEPTH[ctx.tier])):
        fm = FAMILY_MODELS[fam](ctx.tier, ctx.seed)
        r3 = explorer.bfs(ctx, fm, max_depth=depth, chunk=8, label=fam)
        print('  %s family: states=%d depth=%d closed=%s t=%.0fs' % (fam, r3['states'], r3['depth'], r3['closed'], ctx.elapsed()),
              flush=True)
        ctx.count('%s_family_states' % fam, r3['states'])
        for key in ('builds_compared', 'builds_rejected', 'builds_after_further_input', 'traces'):
            ctx.count('%s_family_%s' % (fam, key), ctx.n(key) - before.get(key, 0))
        before = dict(ctx.counts)
        hs = sorted(r3['seen'].values(), key=lambda h: (len(h), repr(h)))
        ctx.samples.insert(0, dict(family=fam, history=hs[-1]))
    ctx.caps_hit[:] = [c for c in ctx.caps_hit if 'depth bound' not in c]
    ctx.require(ctx.n('routes_family_builds_compared') >= 60, 'route family: too few builds compared (%d)' %
                ctx.n('routes_family_builds_compared'))
    ctx.require(ctx.n('routes_family_builds_after_further_input') >= 10, 'route family: too few builds after further input')
    ctx.require(ctx.n('handles_family_builds_compared') >= 60, 'handle family: too few builds compared (%d)' %
                ctx.n('handles_family_builds_compared'))
    for key, least in (('handle_inputs_not_from_position_0', 100), ('handle_inputs_same_handle_after_the_file_grew', 30),
                       ('handle_inputs_exhausted_handle', 10), ('handle_inputs_after_a_build', 30)):
        ctx.require(ctx.n(key) >= least, 'handle family: %s = %d (< %d)' % (key, ctx.n(key), least))
    ctx.require(ctx.n('split_family_builds_rejected') >= 20, 'split family: too few refused builds (%d)' %
                ctx.n('split_family_builds_rejected'))
    ctx.require(ctx.n('split_family_builds_compared') >= 100, 'split family: too few builds compared (%d)' %
                ctx.n('split_family_builds_compared'))
    ctx.require(ctx.n('generator_family_states') >= 300, 'generator family: too few states (%d)' % ctx.n('generator_family_states'))
    ctx.require(ctx.n('generator_comparisons') >= 3000, 'too few generator comparisons')
    q = ctx.quick
    ctx.require(res['states'] >= (5000 if q else 50000), 'too few states (%d)' % res['states'])
    for key, least in (('builds_compared', 500), ('builds_after_mutation_of_an_earlier_metamodel', 100),
                       ('builds_after_further_input', 100), ('mutations_with_other_metamodels_alive', 1000),
                       ('inputs_after_a_build', 300), ('rejected_inputs', 100), ('builds_rejected', 5),
                       ('noninterference_comparisons', 3000), ('differential_comparisons', 10000),
                       ('states_with_several_metamodels_one_mutated', 300)):
        ctx.require(ctx.n(key) >= least, 'vacuity: %s = %d (< %d)' % (key, ctx.n(key), least))
    ctx.require(ctx.nd('outcomes') >= 12, 'too few distinct outcomes (%d)' % ctx.nd('outcomes'))


def replay(ctx, case):
    if case.get('family') in FAMILY_MODELS:
        m = FAMILY_MODELS[case['family']](case.get('tier', 'quick'), case.get('seed', 0))
        return explorer.replay_case(ctx, m, case['hist'], case.get('op'))
    m = LoaderModel(case.get('tier', 'quick'), case.get('seed', 0), case.get('max_mm'), case.get('cap_new'), case.get('gens'),
                    case.get('bad_kind', 'syntax'))
    explorer.replay_case(ctx, m, case['hist'], case.get('op'))


def coverage(ctx):
    note = ctx.notes.get('loader', {})
    return dict(
        states=ctx.n('states'), transitions=ctx.n('transitions'),
        traces_validated_against_impl=ctx.n('differential_comparisons') + ctx.n('noninterference_comparisons'),
        evaluations=ctx.n('differential_comparisons') + ctx.n('noninterference_comparisons') + ctx.n('traces'),
        distinct_nontrivial=ctx.n('states_with_several_metamodels_one_mutated'),
        distinct_outcomes=ctx.nd('outcomes'),
        rule='distinct_nontrivial = canonical states (expanded) holding at least two live metamodels built from the one loader '
             'of which at least one was mutated; in every state every enabled input / build / mutation is executed and after it '
             'every live metamodel is compared (non-interference + fresh-loader replica, incl. the id its generator hands '
             'out next); states / transitions include the generator family (same search, every pattern of explicit / default '
             'id generators over the builds, to its own depth bound), the route family (file-based input routes, file rewritten '
             'between calls), the handle family (file objects at other positions than 0) and the split family (schema statement by statement, refused builds in between)',
        differential_comparisons=ctx.n('differential_comparisons'),
        noninterference_comparisons=ctx.n('noninterference_comparisons'),
        builds_compared=ctx.n('builds_compared'),
        builds_after_mutation_of_an_earlier_metamodel=ctx.n('builds_after_mutation_of_an_earlier_metamodel'),
        builds_after_further_input=ctx.n('builds_after_further_input'),
        builds_rejected=ctx.n('builds_rejected'),
        mutations_with_other_metamodels_alive=ctx.n('mutations_with_other_metamodels_alive'),
        inputs_after_a_build=ctx.n('inputs_after_a_build'), rejected_inputs=ctx.n('rejected_inputs'),
        states_with_several_metamodels=ctx.n('states_with_several_metamodels'),
        identity_facts_recorded=ctx.nd('identity_facts'),
        search=dict(note, bound='depth bound (the stated bound of the tier); closed would mean no new state appeared'),
        generator_comparisons=ctx.n('generator_comparisons'),
        generator_family=dict(patterns=gen_patterns(2 if ctx.quick else 3), depth=GEN_DEPTH[ctx.tier],
                              states=ctx.n('generator_family_states'),
                              searches=dict((k, v) for k, v in ctx.notes.items() if k.startswith('generators-'))),
        route_family=dict(states=ctx.n('routes_family_states'), transitions=ctx.n('routes_family_traces'), depth=ROUTE_DEPTH[ctx.tier],
                          path_spellings=ROUTE_ALIASES, routes=['filename_input', 'file_input', 'input'],
                          accepted_inputs_at_most=ROUTE_MAX_INPUTS[ctx.tier], mutations=list(ROUTE_MUTS),
                          builds_compared=ctx.n('routes_family_builds_compared'),
                          builds_after_further_input=ctx.n('routes_family_builds_after_further_input'),
                          search=ctx.notes.get('routes')),
        handle_family=dict(states=ctx.n('handles_family_states'), transitions=ctx.n('handles_family_traces'), depth=HANDLE_DEPTH[ctx.tier],
                           handles=['the one handle kept open since the file held its first chunk (given again after the file grew, '
                                    'after the caller read lines from it, when exhausted)',
                                    'a new handle advanced by %s lines' % (HANDLE_SKIPS[ctx.tier],)],
                           accepted_inputs_at_most=HANDLE_MAX_INPUTS[ctx.tier], chunks_in_the_file_at_most=HANDLE_MAX_CHUNKS[ctx.tier],
                           mutations=list(HANDLE_MUTS[ctx.tier]),
                           file_inputs=ctx.n('handle_inputs'), not_from_position_0=ctx.n('handle_inputs_not_from_position_0'),
                           same_handle_after_the_file_grew=ctx.n('handle_inputs_same_handle_after_the_file_grew'),
                           exhausted_handle=ctx.n('handle_inputs_exhausted_handle'), after_a_build=ctx.n('handle_inputs_after_a_build'),
                           builds_compared=ctx.n('handles_family_builds_compared'), search=ctx.notes.get('handles')),
        split_family=dict(states=ctx.n('split_family_states'), transitions=ctx.n('split_family_traces'), depth=SPLIT_DEPTH[ctx.tier],
                          chunks=['class A + identifier', 'class B', 'association', 'rows'], mutations=list(SPLIT_MUTS),
                          refused_builds_per_history_at_most=SPLIT_MAX_REFUSED,
                          builds_compared=ctx.n('split_family_builds_compared'),
                          builds_refused=ctx.n('split_family_builds_rejected'), search=ctx.notes.get('split')),
        bounds=dict(depth=DEPTH[ctx.tier], live_metamodels=2 if ctx.quick else 3, chunks=3, rejected_chunk=1,
                    new_per_class_and_metamodel=1 if ctx.quick else 2, palette=ctx.seed % len(PALETTES)),
        exhaustive=not ctx.caps_hit,
    )
