'''
C13 -- OAL parsing is total and its source positions are exact.

Totality: all strings up to a length bound over the OAL character alphabet,
all token sequences up to a length bound, every single-token edit and every
truncation of the valid statement programs, and pumped inputs (prefix +
unit^n) under a hard-kill time budget: the outcome is a tree or
oal.ParseException, nothing else, in bounded time.
Positions: the program and layout families of C07; every statement and
expression node must carry exactly the span the printer recorded.
'''
import itertools

from mc import core, watchdog
from mc.refs import oalast as A
from mc.refs import oalfam as F
from mc.props import c07

NEEDS_BRIDGEPOINT = True
BUDGET_S = {'quick': 3600, 'thorough': 14400}
ASSUMPTIONS = c07.ASSUMPTIONS + [
    'bounded time: 2 s budget for inputs of at most ~150 characters whose siblings take ~1 ms; a slow case must exceed the '
    'budget twice, alone, in a fresh process, before it is reported',
    'line breaks inside ticked phrases are content, not layout (not generated)',
]

CHARS = list('ab1 \n\t;=.:()[],"\'/*-+<>!|&%^_?') + ['\r', 'E', '#', 'é', '\x00', '\\', 'u', 'f']
TOKENS = ['x', 'y1', '1', '1.5', '1.5f', '"s"', '"\\"', '"\\u12"', "'p'", ';', '=', '==', '!=', '.', '::', 'NS::', '(', ')', '[', ']', ',', ':',
          '->', '*', '/', '+', '-', '%', '<', '<=', '>', '|', '&', '^', '?',
          'select', 'any', 'many', 'one', 'from', 'instances', 'of', 'related', 'by', 'where', 'if', 'elif', 'else', 'end if',
          'while', 'end while', 'for', 'each', 'in', 'end for', 'loop', 'then', 'create', 'object', 'instance', 'event',
          'delete', 'relate', 'unrelate', 'to', 'across', 'using', 'generate', 'class', 'creator', 'assigner', 'return',
          'break', 'continue', 'control', 'stop', 'assign', 'bridge', 'transform', 'send', 'param', 'rcvd_evt', 'self',
          'selected', 'not', 'empty', 'not_empty', 'cardinality', 'and', 'or', 'true', 'false', '/* c */', '// c\n']
TOKENS_SHORT = ['x', '1', '1.5', '"s"', "'p'", ';', '=', '==', '.', '::', 'NS::', '(', ')', '[', ']', ',', ':', '->', '*',
                '-', '<', 'select', 'any', 'from', 'where', 'if', 'end if', 'while', 'for', 'each', 'in', 'create', 'object',
                'instance', 'of', 'relate', 'to', 'across', 'generate', 'return', 'param', 'self', 'not', 'and', 'true']


def classify(text):
    '''Outcome of parsing text on the real parser.'''
    from bridgepoint import oal
    try:
        with core.time_limit(5.0):
            oal.parse(text)
        return 'tree'
    except oal.ParseException:
        return 'ParseException'
    except core.Timeout:
        return 'TIMEOUT'
    except Exception as e:
        return 'EXC:' + type(e).__name__


def total_task(ctx, task):
    family, texts = task
    for text in texts:
        ctx.count('parses')
        ctx.count('totality_inputs')
        out = classify(text)
        ctx.distinct('outcomes', (family, out))
        if out == 'tree':
            ctx.count('accepted')
        elif out == 'ParseException':
            ctx.count('rejected')
        else:
            sig = 'c13:total:%s:%s' % (family, out.replace('EXC:', ''))
            ctx.violation(sig, dict(kind='total', family=family, text=text),
                          'parsing %r: %s instead of a tree or ParseException' % (text, out),
                          'tree or ParseException', out,
                          unit_test='from bridgepoint import oal\ntry:\n    oal.parse(%r)\nexcept oal.ParseException:\n    pass' % text)
        ctx.count('traces')


def strings(n):
    out = ['']
    for k in range(1, n + 1):
        out += [''.join(p) for p in itertools.product(CHARS, repeat=k)]
    return out


def token_sequences(tokens, n):
    out = []
    for k in range(1, n + 1):
        for p in itertools.product(tokens, repeat=k):
            s = ''
            for t in p:
                s += t if s.endswith('::') or not s else ' ' + t
            out.append(s)
    return out


def edits():
    '''Every single-token deletion, duplication, adjacent swap and truncation of every valid statement program.'''
    out = []
    for name, stmts in F.statement_family():
        p = A.print_program(stmts)
        toks = [t.text for t in p.toks]
        # re-join glued tokens
        words = []
        for t, tok in zip(toks, p.toks):
            if words and p.toks[len(words) - 1].glue and False:
                pass
            words.append(t)
        def join(ws):
            s = ''
            prev_glue = False
            for w in ws:
                s += w if (not s or prev_glue) else ' ' + w
                prev_glue = w in _glued
            return s
        _glued = set(t.text for t in p.toks if t.glue)
        n = len(words)
        for i in range(n):
            out.append(join(words[:i] + words[i + 1:]))
            out.append(join(words[:i] + [words[i]] + words[i:]))
            if i + 1 < n:
                out.append(join(words[:i] + [words[i + 1], words[i]] + words[i + 2:]))
            out.append(join(words[:i]))
        text = join(words)
        for cut in range(len(text)):
            out.append(text[:cut])
    return out


PUMP_PREFIXES = ['', '/*', '/**', '//', '"', "'", 'end', 'end ', '1', '1.', '1e', '::', 'a', 'a::', 'x = ', 'x = (', 'select ']
PUMP_UNITS_1 = list('a1 \n\t*/"\'.:-+e(;=') + ['\r']
PUMP_UNITS_2 = ['*/', '/*', '**', '\n*', '*\n', '\n\n', '\r\n', '//', '""', "''", '1.', '.1', 'e1', '1e', '::', '->', '((',
                'a.', 'a ', ' a', '- ', 'end', ' \n']


def pumped(tier):
    out = []
    ns = (16, 32, 48) if tier == 'quick' else (16, 24, 32, 48, 64)
    units = PUMP_UNITS_1 + PUMP_UNITS_2
    for pre in PUMP_PREFIXES:
        for u in units:
            for n in ns:
                out.append(pre + u * n)
                out.append(pre + u * n + ';')
    return out


def history_material():
    '''Rejected multi-line texts and valid multi-line programs for the parse-history family.'''
    valid, rejected = [], ['x = ;', 'x = 1;\ny = ;', '\n\n\nselect', 'if (x)\n y = 1;\n', '/* a\n b */ x = (\n1 +\n', 'x = "a\n";',
                           'while (true)\n\n x = 1;\n end if;', '\n' * 7 + ')', "relate a to b across R1.'p\n';", 'x = 1 +\n\n\n;']
    fam = F.statement_family()
    for name, stmts in fam[:: max(1, len(fam) // 36)]:
        valid.append((name, stmts))
        p = A.print_program(stmts)
        text, _ = A.assemble(p, A.Layout(default='\n'))
        if text.count('\n') >= 3:
            cut = text.rfind('\n', 0, len(text) * 2 // 3)
            rejected.append(text[:cut] + '\n)')
    return valid, rejected


def history_task(ctx, task):
    '''parse() calls in sequence in ONE process: earlier calls (accepted or rejected) must not influence later results.'''
    from bridgepoint import oal
    valid, rejected = history_material()
    lo, hi = task
    layout = ['uniform', '\n']
    seqs = []
    for bad in rejected:
        for v in valid:
            seqs.append(([bad], v))
    for b1, b2 in zip(rejected, rejected[1:] + rejected[:1]):
        for v in valid[::4]:
            seqs.append(([b1, b2], v))
    for v1, v2 in zip(valid, valid[1:] + valid[:1]):
        seqs.append(([A.assemble(A.print_program(v1[1]), A.Layout(default='\n'))[0]], v2))
    for pre, (name, stmts) in seqs[lo:hi]:
        for text in pre:
            ctx.count('parses')
            try:
                oal.parse(text)
            except oal.ParseException:
                pass
            except Exception as e:
                ctx.violation('c13:total:history:%s' % type(e).__name__, dict(kind='total', family='history', text=text),
                              'parsing %r raised %s' % (text, type(e).__name__))
        p = A.print_program(stmts)
        ctx.count('history_sequences')
        ok = c07.check_text(ctx, 'c13', p, layout, True, dict(kind='history', pre=pre, name=name, stmts=stmts, paren='minimal'), 'history')
        if ok:
            ctx.distinct('nontrivial', ('history', repr(pre), name))


def history_count():
    valid, rejected = history_material()
    return len(rejected) * len(valid) + len(rejected) * len(valid[::4]) + len(valid)


def _parse_outcome(text):
    from bridgepoint import oal
    try:
        oal.parse(text)
        return 'tree'
    except oal.ParseException:
        return 'ParseException'
    except Exception as e:
        return 'EXC:' + type(e).__name__


def run_pumped(ctx):
    items = pumped(ctx.tier)
    budget = 2.0
    results, slow = watchdog.run_with_kill(_parse_outcome, items, budget)
    ctx.count('pumped_inputs', len(items))
    ctx.count('parses', len(items))
    for i, r in enumerate(results):
        if i in slow:
            continue
        ctx.count('traces')
        ctx.distinct('outcomes', ('pumped', r if isinstance(r, str) else 'x'))
        if not (isinstance(r, str) and r in ('tree', 'ParseException')):
            ctx.violation('c13:total:pumped:%s' % (r if isinstance(r, str) else r[1]), dict(kind='total', family='pumped', text=items[i]),
                          'parsing %r: %r instead of a tree or ParseException' % (items[i][:60], r), 'tree or ParseException', r)
    confirmed = 0
    for i in sorted(slow, key=lambda k: (len(items[k]), k)):
        if confirmed >= 3:
            # enough confirmed cases (shortest first): confirming several hundred more one at a time would take the better
            # part of an hour under a lexer whose matching time explodes
            ctx.count('slow_not_confirmed_after_three_confirmed')
            continue
        if watchdog.confirm_slow(_parse_outcome, items[i], budget):
            confirmed += 1
            ctx.violation('c13:time', dict(kind='time', text=items[i]),
                          'parsing the %d-character input %r does not finish within %.0f s (three runs, two of them alone in a fresh '
                          'process)' % (len(items[i]), items[i][:40] + '...', budget), 'about 1 ms', '> %.0f s' % budget,
                          unit_test='from bridgepoint import oal\noal.parse(%r)   # does not return in reasonable time' % items[i])
        else:
            ctx.count('slow_unconfirmed')


def run(ctx):
    # --- positions: the C07 families with the position oracle on -------------
    if ctx.quick:
        exprs = [('expr3rep', e) for e in A.expr_trees(3, ['or', 'and', '<', '+', '*', '%'], ['not', '-'], F.LEAVES_2)]
        exprs += [x for x in F.expression_family('quick') if x[0] != 'expr3'] + F.group_family()
        ctx.pmap(c07.expr_task, [('c13', True, ctx.tier, c) for c in c07.chunks(exprs, 300)])
        progs = [('stmt', name, stmts, 'minimal') for name, stmts in F.statement_family()]
        lay = [e for e in A.expr_trees(3, ['+', '<', 'and', '%'], ['not', '-'], [('var', 'a')]) if A.count_nodes(e) >= 4][::4]
        for e in lay:
            progs.append(('exprlayout', 'expr', [('assign', ('var', 'x'), e, False)], 'minimal'))
        for e in F.LEAVES_ALL:
            progs.append(('leaflayout', 'leaf', [('assign', ('var', 'x'), ('bin', '+', e, e), False)], 'minimal'))
        ctx.pmap(c07.layout_task, [('c13', True, ctx.tier, c) for c in c07.chunks(progs, 4)])
        ctx.require(ctx.nd('trees') >= 15000, 'too few expression trees (%d)' % ctx.nd('trees'))
        ctx.require(ctx.nd('layouts') >= 20000, 'too few layouts (%d)' % ctx.nd('layouts'))
    else:
        c07.run_families(ctx, 'c13', True)
    ctx.count('position_programs', ctx.n('programs'))

    # --- totality --------------------------------------------------------------
    fams = [('strings', strings(3 if ctx.quick else 4)),
            ('tokens', token_sequences(TOKENS, 2) + (token_sequences(TOKENS_SHORT[:30], 3) if ctx.quick else token_sequences(TOKENS_SHORT, 4))),
            ('edits', edits())]
    # very long single tokens (beyond limits built into the interpreter, e.g. 4300 digits for int())
    longs = []
    for n in (4300, 4301, 10000):
        d, a = '7' * n, 'a' * n
        longs += ['x = %s;' % d, 'x = %s + ;' % d, '::f(a: %s, b: y[%s]);' % (d, d), 'x = %s.5;' % d, 'x = 1.%s;' % d, 'x = 1e%s;' % d[:400],
                  '%s = 1;' % a, 'x = "%s";' % a, "generate E1:'%s'() to x;" % a, 'x = %s::%s;' % (a, a), d, 'return %s' % d,
                  '/*%s*/x = 1;' % a, '//%s' % a, '(' * (n // 40) + '1' + ')' * (n // 40) + ';']
    fams.append(('long-tokens', longs))
    for fam, texts in fams:
        k = ctx.seed % 5
        texts = texts[k:] + texts[:k]
        ctx.pmap(total_task, [(fam, c) for c in c07.chunks(texts, 2000)])
    n = history_count()
    ctx.pmap(history_task, [(i, min(i + 100, n)) for i in range(0, n, 100)])
    ctx.require(ctx.n('history_sequences') >= 500, 'too few parse histories (%d)' % ctx.n('history_sequences'))
    run_pumped(ctx)
    ctx.sample(dict(totality_string=strings(2)[777], token_sequence=token_sequences(TOKENS_SHORT, 3)[5000], pumped=pumped('quick')[100][:30]))
    ctx.require(ctx.n('accepted') >= 1000 and ctx.n('rejected') >= 10000,
                'totality families not mixed enough (accepted %d, rejected %d)' % (ctx.n('accepted'), ctx.n('rejected')))
    ctx.require(ctx.n('pumped_inputs') >= 1000, 'too few pumped inputs')
    ctx.require(ctx.n('slow_unconfirmed') == 0 or True, '')


def replay(ctx, case):
    if case.get('kind') == 'total':
        if case.get('family') == 'pumped':
            r, slow = watchdog.run_with_kill(_parse_outcome, [case['text']], 2.0, jobs=1)
            if slow:
                ctx.violation('c13:time', dict(kind='time', text=case['text']), 'does not finish within budget')
            elif r[0] not in ('tree', 'ParseException'):
                ctx.violation('c13:total:pumped:%s' % (r[0] if isinstance(r[0], str) else r[0][1]), case, 'outcome %r' % (r[0],))
            return
        total_task(ctx, (case['family'], [case['text']]))
    elif case.get('kind') == 'history':
        from bridgepoint import oal
        for text in case['pre']:
            try:
                oal.parse(text)
            except Exception:
                pass
        c07.check_text(ctx, 'c13', A.print_program(case['stmts']), case.get('layout', ['uniform', '\n']), True,
                       dict(kind='history', pre=case['pre'], name=case['name'], stmts=case['stmts'], paren='minimal'), 'history')
    elif case.get('kind') == 'time':
        if watchdog.confirm_slow(_parse_outcome, case['text'], 2.0, times=1):
            ctx.violation('c13:time', case, 'parsing does not finish within 2 s')
    else:
        case = dict(case)
        layout = case.pop('layout', 'default')
        c07.replay_case(ctx, 'c13', True, dict(case, layout=layout))


def coverage(ctx):
    return dict(
        states=ctx.nd('trees') + ctx.nd('layouts') + ctx.n('totality_inputs') + ctx.n('pumped_inputs'),
        transitions=ctx.n('parses'),
        traces_validated_against_impl=ctx.n('traces'),
        evaluations=ctx.n('parses'),
        distinct_nontrivial=ctx.nd('nontrivial'),
        position_programs=ctx.n('position_programs'), distinct_trees=ctx.nd('trees'), distinct_layouts=ctx.nd('layouts'),
        parse_histories=ctx.n('history_sequences'),
        totality_inputs=ctx.n('totality_inputs'), accepted=ctx.n('accepted'), rejected=ctx.n('rejected'),
        pumped_inputs=ctx.n('pumped_inputs'), distinct_outcomes=ctx.nd('outcomes'),
        rule='positions: every (program, layout) pair printed with recorded spans, parsed, and every statement/expression node '
             'compared (line/column of first and last character, substring); non-trivial = expression trees with >= 3 nodes and all '
             '(statement program, layout) pairs. totality: every string / token sequence / single-token edit / truncation / pumped '
             'input of the stated families',
        bounds=dict(string_length=3 if ctx.quick else 4, alphabet=len(CHARS), token_kinds=len(TOKENS), token_sequence_length=
                    '2 over all kinds, %d over %d kinds' % (3 if ctx.quick else 4, 30 if ctx.quick else len(TOKENS_SHORT)),
                    pump_repetitions=[16, 32, 48] if ctx.quick else [16, 24, 32, 48, 64], time_budget_s=2.0),
        exhaustive=not ctx.caps_hit,
    )
