'''
C02 -- links stay symmetric, bounded and atomic through any operation history.

E1 search to closure, one search per association shape, over bounded instance
pools.  Reference: mc.refs.relmodel.Ref.
'''
import json

from mc import explorer
from mc.refs import relmodel, schemas

NEEDS_BRIDGEPOINT = False
BUDGET_S = {'quick': 3600, 'thorough': 14400}
ASSUMPTIONS = [
    'instance pools capped at 2 (quick) / 3 (thorough) instances ever created per class; search to closure under the cap',
    'operations on deleted instances other than a repeated delete are outside the statement and not generated',
    'delete is always called with disconnect=True; reflexive associations have two distinct phrases',
    'instance creation includes creation with referential values naming existing instances (unphrased, non-reflexive '
    'associations; phrased ones are C03): when every implied relate is admissible the call must succeed and link all of them; a '
    'rejected creation may leave the new instance linked to any admissible part of what was asked for or leave nothing, and the '
    'invariants of the statement must hold afterwards (the reference adopts the observed one of those states)',
]
UNKNOWN_REL = 99
UNKNOWN_PHRASE = 'zz'


class World(object):
    pass


def partners_proxy(oset, w, name):
    '''Implementation-only state of one partner set (xtuml.OrderedSet: doubly linked list + map).  Empty text while the
    backward chain and the map agree with forward iteration -- so sound trees get no additional states -- and the
    disagreeing views otherwise (such a set answers the next calls differently although navigation looks the same).'''
    try:
        end = oset.end
        fwd, cur = [], end[2]
        while cur is not end and len(fwd) < 32:
            fwd.append(cur[0]); cur = cur[2]
        bwd, cur = [], end[1]
        while cur is not end and len(bwd) < 32:
            bwd.append(cur[0]); cur = cur[1]
        keys = list(oset.map)
    except Exception:
        return ''
    lab = lambda xs: [name.get(w.label.get(x), '?') for x in xs]
    if bwd[::-1] == fwd and len(keys) == len(fwd) and all(k in oset.map for k in fwd):
        return ''
    return ':views-differ(fwd=%s,bwd=%s,map=%s)' % (lab(fwd), lab(bwd), sorted(lab(keys)))


class LinkModel(explorer.Model):
    def __init__(self, schema, cap):
        self.schema = schema
        self.cap = cap

    def case(self, hist, op):
        return dict(schema=self.schema.name, cap=self.cap, hist=hist, op=op)

    def build(self, hist):
        import xtuml
        w = World()
        w.m = relmodel.build_real(xtuml, self.schema)
        w.ref = relmodel.Ref(self.schema)
        w.handles = []
        w.label = {}
        for op in hist:
            if op[0] == 'newref':
                self.newref(w, op)
                continue
            self.run_impl(w, op)
            self.run_ref(w, op)
        w.obs = None
        return w

    # -- creation with referential values -------------------------------------
    def newref_targets(self, kind):
        '''Associations (index) in which *kind* is the referring class; only unphrased, non-reflexive ones (which phrase
        a creation call links across is the subject of C03).'''
        def shared(ai, a):      # a referential attribute formalising several associations carries one value: not generated
            return any(bi != ai and b.src.upper() == a.src.upper() and set(b.skeys) & set(a.skeys)
                       for bi, b in enumerate(self.schema.assocs))
        return [ai for ai, a in enumerate(self.schema.assocs)
                if a.src.upper() == kind.upper() and a.src.upper() != a.tgt.upper() and not a.sphrase and not a.tphrase
                and not shared(ai, a)]

    def newref(self, w, op):
        '''m.new(kind, <referential attributes> = <identifying values of the chosen instances>).  A creation call whose
        relates are all admissible must succeed and link the new instance to every chosen instance.  One that is rejected
        (MetaException) may have linked any admissible part of what was asked for, or have vanished altogether: the
        statement only demands that the model stays symmetric with only live instances reachable.  The reference adopts
        whichever of those states is observed.  -> (outcome, matched candidate or None, observation)'''
        import copy
        import xtuml
        _, kind, targets = op
        kwargs = {}
        for ai, y in targets:
            a = self.schema.assocs[ai]
            for sk, tk in zip(a.skeys, a.tkeys):
                kwargs[sk] = getattr(w.handles[y], tk)
        n_before = dict((k, len(list(w.m.select_many(k)))) for k in self.schema.kinds())
        try:
            inst = w.m.new(kind, **kwargs)
            got = 'created'
        except xtuml.MetaException as e:
            inst = None
            got = type(e).__name__
        if inst is None:
            # a half-built instance may have stayed in the pool: give it the next label
            for cand in w.m.select_many(kind):
                if cand not in w.label:
                    inst = cand
        if inst is not None:
            w.label[inst] = len(w.handles)
        obs = self.observe(w)
        n_ids = sum(1 for _, t in self.schema.attrs(kind) if t.upper() == 'UNIQUE_ID')
        cands = []
        for mask in range(1 << len(targets)):
            part = [t for i, t in enumerate(targets) if mask >> i & 1]
            if got == 'created' and len(part) != len(targets):
                continue
            r = copy.deepcopy(w.ref)
            idx = r.new(kind)
            if all(r.relate(idx, y, self.schema.assocs[ai].rel, '') == 'True' for ai, y in part):
                cands.append((part, r, True))
        if got != 'created':
            r = copy.deepcopy(w.ref)
            r.next_id += len([1 for n, t in self.schema.attrs(kind) if t.upper() == 'UNIQUE_ID' and n not in self.schema.referentials(kind)])
            cands.append(('vanished', r, False))
        admissible_all = any(len(part) == len(targets) for part, _, _ in cands if part != 'vanished')
        matched = None
        for part, r, in_pool in cands:
            if got != 'created' and part != 'vanished' and len(part) == len(targets):
                continue
            if in_pool != (inst is not None and inst in list(w.m.select_many(kind))):
                continue
            if relmodel.diff_obs(r.observe(), obs) is None:
                matched = part
                w.ref = r
                break
        if inst is not None and matched != 'vanished':
            w.handles.append(inst)
        elif inst is not None:
            del w.label[inst]
        if matched is None and inst is not None and len(w.handles) < len(w.ref.insts) + 1 and inst not in w.handles:
            w.handles.append(inst)
        return got, matched, obs, admissible_all, cands

    # -- the two sides -----------------------------------------------------
    def run_impl(self, w, op):
        import xtuml
        name = op[0]
        try:
            if name == 'new':
                inst = w.m.new(op[1])
                w.label[inst] = len(w.handles)
                w.handles.append(inst)
                return 'created'
            if name in ('relate', 'unrelate'):
                _, x, y, rel, phrase, spelling = op
                hx = None if x is None else w.handles[x]
                hy = None if y is None else w.handles[y]
                relid = rel if spelling == 'int' else 'R%d' % rel
                fn = xtuml.relate if name == 'relate' else xtuml.unrelate
                if phrase is None:
                    return repr(fn(hx, hy, relid))
                return repr(fn(hx, hy, relid, phrase))
            if name == 'delete':
                return repr(xtuml.delete(w.handles[op[1]]))
        except xtuml.MetaException as e:
            return type(e).__name__
        raise ValueError(op)

    def run_ref(self, w, op):
        name = op[0]
        if name == 'new':
            w.ref.new(op[1])
            return 'created'
        if name == 'relate':
            return w.ref.relate(op[1], op[2], op[3], op[4] or '')
        if name == 'unrelate':
            return w.ref.unrelate(op[1], op[2], op[3], op[4] or '')
        if name == 'delete':
            return w.ref.delete(op[1])
        raise ValueError(op)

    def observe(self, w):
        import xtuml
        w.obs = relmodel.observe_real(xtuml, w.m, self.schema, w.label)
        return w.obs

    def canon(self, w):
        '''Observation (incl. link order) with instances renamed per class in
        creation order and id values renamed to their owner, so that histories
        differing only in the interleaving of creations of different classes
        merge (same futures up to that renaming).'''
        obs = getattr(w, 'obs', None) or self.observe(w)
        name, n, owner = {}, {}, {}
        for i in w.ref.insts:
            name[i.idx] = '%s%d' % (i.kind, n.get(i.kind, 0))
            n[i.kind] = n.get(i.kind, 0) + 1
            if 'Id' in i.values:
                owner[i.values['Id']] = name[i.idx]

        def ren(x):
            return name.get(x, x)
        pool = dict((k, [ren(x) for x in v]) for k, v in obs['pool'].items())
        nav = {}
        for k, v in obs['nav'].items():
            x, rest = k.split('->', 1)
            nav[ren(int(x)) + '->' + rest] = [ren(y) for y in v] if isinstance(v, list) else v
        ref = {}
        for k, v in obs['ref'].items():
            x, rest = k.split('.', 1)
            ref[ren(int(x)) + '.' + rest] = owner.get(v, v)
        dead = sorted(name[i.idx] for i in w.ref.insts if not i.alive)
        # implementation-only state: which instances own an entry in each directed link (an empty entry left behind by a
        # rejected or undone call is invisible to navigation but changes what later calls do)
        proxy = None
        try:
            proxy = []
            for ukind in sorted(w.m.metaclasses):
                for key, link in sorted(w.m.metaclasses[ukind].links.items(), key=repr):
                    owners = sorted(name.get(w.label.get(inst), '?') + ('' if len(link[inst]) else ':empty') + partners_proxy(link[inst], w, name)
                                    for inst in link.keys())
                    proxy.append([ukind, repr(key), owners])
        except Exception:
            proxy = None
        return json.dumps([pool, nav, ref, dead, sorted(n.items()), proxy], sort_keys=True, default=repr)

    # -- menu --------------------------------------------------------------
    def enabled(self, w):
        ref = w.ref
        ops = []
        created = {}
        for i in ref.insts:
            created[i.kind] = created.get(i.kind, 0) + 1
        live = [i.idx for i in ref.insts if i.alive]
        for k in self.schema.kinds():
            if created.get(k, 0) < self.cap:
                ops.append(['new', k])
                tas = self.newref_targets(k)
                if tas:
                    import itertools
                    choices = []
                    for ai in tas:
                        tk = self.schema.assocs[ai].tgt.upper()
                        choices.append([None] + [i for i in live if ref.insts[i].kind.upper() == tk])
                    for combo in itertools.product(*choices):
                        targets = [[ai, y] for ai, y in zip(tas, combo) if y is not None]
                        if targets:
                            ops.append(['newref', k, targets])
        rels = self.schema.rels()
        phrases = self.schema.phrases()
        for x in live:
            for y in live:
                for rel in rels:
                    for ph in phrases:
                        for name in ('relate', 'unrelate'):
                            if ref.resolve(ref.insts[x].kind, ref.insts[y].kind, rel, ph) is None:
                                ops.append([name, x, y, rel, ph, 'int'])
                            elif ph == '':
                                # both spellings of the number; phrase argument given / omitted
                                ops.append([name, x, y, rel, None, 'int'])
                                ops.append([name, x, y, rel, ph, 'str'])
                            else:
                                ops.append([name, x, y, rel, ph, 'int' if name == 'relate' else 'str'])
                for name in ('relate', 'unrelate'):
                    ops.append([name, x, y, UNKNOWN_REL, '', 'int'])
                    ops.append([name, x, y, rels[0], UNKNOWN_PHRASE, 'str'])
        for x in live[:2]:
            for name in ('relate', 'unrelate'):
                ops.append([name, None, x, rels[0], '', 'int'])
                ops.append([name, x, None, rels[0], '', 'int'])
        for i in ref.insts:
            ops.append(['delete', i.idx])
        return ops

    # -- transition + oracle -------------------------------------------------
    def apply_newref(self, ctx, w, op, hist):
        before = self.observe(w)
        got, matched, after, admissible_all, cands = self.newref(w, op)
        ctx.count('traces')
        ctx.count('creations_with_referentials')
        ctx.distinct('outcomes', (self.schema.name, 'newref', got, repr(matched)))
        case = self.case(hist, op)

        def bad(kind, msg, expected=None, observed=None):
            ctx.violation('c02:newref:%s' % kind, case, 'schema %s, history %s, then %s: %s' % (self.schema.name, hist, op, msg),
                          expected, observed, unit_test=unit_test(self, hist, op))
        probs = relmodel.check_symmetry(self.schema, after)
        if probs:
            bad(probs[0].split(':', 1)[0], 'after the creation call (%s): %s' % (got, probs[0]), None, after)
            return False
        if got == 'created' and not admissible_all:
            bad('outcome', 'the creation call succeeded although one of the instances it refers to already has its single partner')
            return False
        if got != 'created' and admissible_all:
            bad('outcome', 'the creation call raised %s although every instance it refers to can take another partner' % got, 'created', got)
            return False
        if matched is None:
            bad('state', 'after the creation call (%s) the model is none of the admissible states (new instance linked to an '
                'admissible part of what was asked for, or no new instance at all): %s' %
                (got, relmodel.diff_obs(cands[0][1].observe(), after) if cands else '?'), None, after)
            return False
        if got != 'created':
            ctx.count('rejected_creations')
        return True

    def apply(self, ctx, w, op, hist):
        name = op[0]
        if name == 'newref':
            return self.apply_newref(ctx, w, op, hist)
        before = self.observe(w)
        got = self.run_impl(w, op)
        exp = self.run_ref(w, op)
        after = self.observe(w)
        want = w.ref.observe()
        ctx.count('traces')
        ctx.distinct('outcomes', (self.schema.name, name, got))
        case = self.case(hist, op)

        def bad(kind, msg, expected=None, observed=None):
            ctx.violation('c02:%s:%s' % (name, kind), case,
                          'schema %s, history %s, then %s: %s' % (self.schema.name, hist, op, msg),
                          expected, observed, unit_test=unit_test(self, hist, op))

        rejected = got.endswith('Exception')
        if rejected:
            ctx.count('rejected_calls_compared')
            d = relmodel.diff_obs(before, after)
            if d:
                bad('rejected-call-changed-model', 'call raised %s but the model changed: %s' % (got, d),
                    before, after)
                return False
        if got != exp:
            bad('outcome', 'outcome %s, expected %s' % (got, exp), exp, got)
            return False
        probs = relmodel.check_symmetry(self.schema, after)
        if probs:
            kind = probs[0].split(':', 1)[0]
            bad(kind, probs[0], None, after)
            return False
        d = relmodel.diff_obs(want, after)
        if d:
            bad('state', d, want, after)
            return False
        if name == 'relate' and got == 'True' and relmodel.diff_obs(before, after):
            # a successful unrelate exactly undoes a successful relate
            ctx.count('undo_checked')
            undo = ['unrelate'] + op[1:]
            got2 = self.run_impl(w, undo)
            self.run_ref(w, undo)
            back = self.observe(w)
            d = relmodel.diff_obs(before, back) if got2 == 'True' else 'unrelate gave %s' % got2
            if d:
                bad('undo', 'unrelate after a successful relate does not restore the model: %s' % d, before, back)
                return False
            # put the relate back so that the successor state is the related one
            self.run_impl(w, op)
            self.run_ref(w, op)
            w.obs = after
        return True

    def probes(self, ctx, w, hist):
        pass


def unit_test(model, hist, op):
    lines = ['import xtuml',
             'l = xtuml.ModelLoader()',
             'l.input(%r)' % model.schema.sql(),
             'm = l.build_metamodel(xtuml.IntegerGenerator())',
             'h = []']

    def stmt(o, guard=False):
        if o[0] == 'new':
            return 'h.append(m.new(%r))' % o[1]
        if o[0] == 'newref':
            kw = []
            for ai, y in o[2]:
                a = model.schema.assocs[ai]
                kw += ['%s=h[%d].%s' % (sk, y, tk) for sk, tk in zip(a.skeys, a.tkeys)]
            return 'h.append(m.new(%r, %s))   # (on rejection: look for the half-built instance in the pool)' % (o[1], ', '.join(kw))
        if o[0] == 'delete':
            return 'xtuml.delete(h[%d])' % o[1]
        a = ['None' if o[1] is None else 'h[%d]' % o[1], 'None' if o[2] is None else 'h[%d]' % o[2],
             repr(o[3] if o[5] == 'int' else 'R%d' % o[3])]
        if o[4] is not None:
            a.append(repr(o[4]))
        return 'xtuml.%s(%s)' % (o[0], ', '.join(a))
    for o in hist:
        lines.append(stmt(o))
    lines.append('# failing step (compare navigation in both directions before/after):')
    lines.append('try:\n    %s\nexcept xtuml.MetaException as e:\n    print("rejected:", type(e).__name__)' % stmt(op))
    return '\n'.join(lines)


def selected(ctx):
    sh = schemas.shapes()
    return sh


CAPS = {
    # schema -> (quick caps, thorough caps); a cap is the number of instances ever created per class
    'a_1c_1c': ({'A': 2, 'B': 2}, {'A': 3, 'B': 3}),
    'b_1_mc': ({'A': 2, 'B': 2}, {'A': 3, 'B': 3}),
    'c_mc_1c_other_side': ({'A': 2, 'B': 2}, {'A': 3, 'B': 3}),
    'd_m_m': ({'A': 2, 'B': 2}, {'A': 2, 'B': 3}),
    'e_reflexive_1c_1c': ({'A': 3}, {'A': 4}),
    'f_reflexive_1_mc': ({'A': 3}, {'A': 4}),
    'g_assoc_class': ({'A': 2, 'B': 2, 'C': 2}, {'A': 2, 'B': 2, 'C': 3}),
    'g2_reflexive_assoc_class': ({'A': 2, 'C': 2}, {'A': 3, 'C': 3}),
    'h_subsuper': ({'P': 2, 'S1': 2, 'S2': 2}, {'P': 3, 'S1': 2, 'S2': 2}),
    'i_two_single_refs': ({'A': 2, 'B': 1, 'C': 2}, {'A': 2, 'B': 2, 'C': 3}),
    'j_compound_key': ({'A': 2, 'B': 2}, {'A': 2, 'B': 3}),
    'k_1_1': ({'A': 2, 'B': 2}, {'A': 2, 'B': 3}),
    'l_shared_referential': ({'A': 1, 'B': 2, 'C': 1}, {'A': 2, 'B': 2, 'C': 2}),
    'm_shared_referential_int': ({'A': 1, 'B': 2, 'C': 1}, {'A': 2, 'B': 2, 'C': 2}),
}


# a second, lopsided set of caps for the to-many shapes (quick tier): one instance at the single end, three at the many end
# (the third partner of one instance: remove the most recently related partner while another remains, then relate a new one)
CAPS_LOPSIDED = {
    'b_1_mc': {'A': 1, 'B': 3},
    'd_m_m': {'A': 1, 'B': 3},
    'c_mc_1c_other_side': {'A': 3, 'B': 1},
}


def models(ctx):
    out = []
    for schema in schemas.shapes() + [x for x in schemas.extra_shapes() if x.name in CAPS]:
        caps = CAPS[schema.name][0 if ctx.quick else 1]
        out.append(CappedModel(schema, max(caps.values()), caps))
        if ctx.quick and schema.name in CAPS_LOPSIDED:
            caps = CAPS_LOPSIDED[schema.name]
            out.append(CappedModel(schema, max(caps.values()), caps))
    return out


def run(ctx):
    total = 0
    for m in explorer.rotate(models(ctx), ctx.seed):
        schema = m.schema
        res = explorer.bfs(ctx, m, chunk=8, label=schema.name + ('' if m.caps == CAPS[schema.name][0 if ctx.quick else 1] else ':lopsided'),
                           budget_s=None if ctx.quick else 400)
        total += res['states']
        print('  %-28s caps=%s states=%d depth=%d closed=%s t=%.0fs' % (schema.name, m.caps, res['states'], res['depth'], res['closed'], ctx.elapsed()), flush=True)
        ctx.sample(dict(schema=schema.name, caps=m.caps, states=res['states'], closed=res['closed'],
                        deepest_history=max(res['seen'].values(), key=len)))
    ctx.require(total >= 200, 'too few states (%d)' % total)
    ctx.require(ctx.n('rejected_calls_compared') >= 1000, 'too few rejected calls compared')
    ctx.require(ctx.n('undo_checked') >= 100, 'too few relate/unrelate round trips')
    ctx.require(ctx.n('rejected_creations') >= 20, 'too few rejected creation calls (%d)' % ctx.n('rejected_creations'))
    ctx.require(ctx.nd('outcomes') >= 30, 'too few distinct outcomes (%d)' % ctx.nd('outcomes'))


class CappedModel(LinkModel):
    '''Per-class caps (used for the largest shapes in the thorough tier).'''
    def __init__(self, schema, cap, caps):
        LinkModel.__init__(self, schema, cap)
        self.caps = caps

    def case(self, hist, op):
        c = LinkModel.case(self, hist, op)
        c['caps'] = self.caps
        return c

    def enabled(self, w):
        ops = LinkModel.enabled(self, w)
        created = {}
        for i in w.ref.insts:
            created[i.kind] = created.get(i.kind, 0) + 1
        return [o for o in ops if o[0] != 'new' or created.get(o[1], 0) < self.caps.get(o[1], self.cap)]


def replay(ctx, case):
    schema = schemas.by_name(case['schema'])
    m = CappedModel(schema, case['cap'], case['caps']) if case.get('caps') else LinkModel(schema, case['cap'])
    explorer.replay_case(ctx, m, case['hist'], case.get('op'))


def coverage(ctx):
    closed = all(v.get('closed') for v in ctx.notes.values() if isinstance(v, dict))
    return dict(
        states=ctx.n('states'),
        transitions=ctx.n('transitions'),
        traces_validated_against_impl=ctx.n('traces'),
        evaluations=ctx.n('transitions'),
        distinct_nontrivial=ctx.nd('outcomes'),
        distinct_outcomes=ctx.nd('outcomes'),
        rejected_calls_compared=ctx.n('rejected_calls_compared'),
        relate_unrelate_round_trips=ctx.n('undo_checked'),
        creations_with_referential_values=ctx.n('creations_with_referentials'), rejected_creations=ctx.n('rejected_creations'),
        rule='every enabled operation (new / relate / unrelate / delete over every ordered pair of live instances, every '
             'relationship number incl. an unknown one, every phrase incl. none/unknown, both spellings of the number, None '
             'arguments, repeated delete) is executed in every reachable canonical state; distinct_nontrivial counts distinct '
             '(schema, operation, outcome) triples',
        per_schema=dict((k, v) for k, v in ctx.notes.items() if isinstance(v, dict)),
        bounds=dict(pool_caps=dict((k, v[0 if ctx.quick else 1]) for k, v in CAPS.items()),
                    second_search_with_lopsided_caps=CAPS_LOPSIDED if ctx.quick else {}),
        exhaustive=bool(closed) and not ctx.caps_hit,
    )
