'''
C11 -- the consistency check reports exactly the violations present.

E2 (bounded exhaustive generators) + the loader-seeded state space of C02:

 A  every association shape of mc/refs/schemas.py, every population inside the
    stated per-class bounds, every assignment of identifying values (with
    duplicates and nulls) and referential values {null, k1, k2, dangling};
    loaded from SQL text (so under- and over-populated ends occur), nulls
    written as id 0 (positional INSERT) and as an absent column (named INSERT),
    type names spelled in lower, upper and mixed case;
 B  one class with 0-2 identifiers over 1-2 attributes (incl. one attribute
    shared by both identifiers), every population with values from
    {unset, id 0, v1, v1 again, v2}, types UNIQUE_ID / INTEGER / STRING spelled
    in upper case and -- one-step deviations -- lower and mixed case;
 C  a composite model with the numbers R1, R11, R12, R4 (prefix-related), every
    combination of per-component scenarios; every restriction through the API
    and every subset of -r / -k options through xtuml.consistency_check.main
    and through the module run as __main__ (exit status);
 D  BridgePoint-format models (rows of PE_PE / S_DT / S_CDT, every subset, one
    row duplicated) through bridgepoint.consistency_check (ooaofooa schema,
    with and without -g), expected counts from a reference built by an
    independent parse of the ooaofooa schema text;
 P  both tools as real processes (python -m ...) on models whose number of
    violations lies around the multiples of 256, unrestricted and with -r / -k
    selections that bring the selected number to 256: the exit status reported
    by the operating system is non-zero exactly when violations are selected;
 E  explicit-state search over API histories (new / relate / unrelate / delete /
    identifier writes) started from empty and from loader-built over-populated
    models; the counts are compared in every reachable state.

Oracle: mc.refs.relmodel (links by definition of loading / of the API) with
counts per (instance, association end); identifier violations counted here.
'''
import itertools
import json
import os
import re
import uuid

from mc import core, explorer
from mc.refs import relmodel, schemas
from mc.props import c02

NEEDS_BRIDGEPOINT = True
BUDGET_S = {'quick': 3600, 'thorough': 14400}
ASSUMPTIONS = [
    'identifying attributes never hold empty strings or numeric zeros (whether those are null is not stated); nulls are '
    'unset values and id 0',
    'where one instance repeats two identifiers either counting rule is accepted (per instance / per (instance, '
    'identifier) pair); where two null identifying values differ only in their form (unset vs id 0) both "equal" and '
    '"different" are accepted; attributes referred to by an association but in no declared identifier may or may not '
    'count as identifying (they coincide in all generated models except some ooaofooa classes)',
    'the value of an identifying attribute that is also referential is the value read through the link (None when unlinked)',
    'per-class population bounds and palettes as reported under bounds; within them the enumeration is complete',
    'every association-shape model is loaded twice: nulls as id 0 in positional INSERTs and nulls as absent columns of named '
    'INSERTs; identifier-set models use named INSERTs (unset = absent column)',
    'subtype checking is also decided for variants of one supertype (same class name and number, other subtype sets) checked '
    'one after the other in one process, and for a subtype added to the live metamodel between two checks',
    'late family: the associations of a shape are defined and formalized by an operation of the history, after any number of '
    'creations (the instances then hold raw values where referential attributes appear later); identifiers also cover the '
    'referential attributes (sub/super, B.A_Id, C.(A_Id, B_Id), A.Next_Id); counts are compared in every formalized state',
    'a stage that reports violations ends the run (stages: command lines, identifier sets, association shapes, histories)',
    'bridgepoint.consistency_check is decided on BridgePoint-format rows of PE_PE, S_DT, S_CDT (plus the built-in globals with -g)',
    'the exit status of a tool is what the operating system reports for `python -m <tool> ...` (family P: real processes on the '
    'scratch copy of the tree under test, for models with 0, 1, 255, 256, 257, 512 violations and -r / -k selections of 256 of '
    'them); the in-process runs of families C and D apply the same reduction to eight bits to the code given to sys.exit',
]

K1, K2, K3, DANGLING, DUP = 101, 102, 103, 199, 200
NULL = 'null'
PAYLOAD = ('Z', 'integer')
LIMIT_S = 30.0


# ---------------------------------------------------------------------------
# schemas as JSON, type spellings
# ---------------------------------------------------------------------------

def schema_json(s):
    return dict(name=s.name, classes=[[k, [list(a) for a in attrs]] for k, attrs in s.classes],
                assocs=[a.as_json() for a in s.assocs], uniques=[list(u) for u in s.uniques])


def schema_from_json(d):
    if d == 'ooaofooa':
        return ooa_schema()
    return relmodel.Schema(d['name'], [(k, [tuple(a) for a in attrs]) for k, attrs in d['classes']],
                           [relmodel.Assoc(*a) for a in d['assocs']], [tuple(u) for u in d['uniques']])


def spell(ty, how):
    if how == 'upper':
        return ty.upper()
    if how == 'lower':
        return ty.lower()
    return ty[0].upper() + ty[1:].lower()


def respell(schema, how):
    return relmodel.Schema(schema.name, [(k, [(n, spell(t, how)) for n, t in attrs]) for k, attrs in schema.classes],
                           schema.assocs, schema.uniques)


def shape(name, how='lower'):
    return respell(schemas.by_name(name, [PAYLOAD]), how)


# ---------------------------------------------------------------------------
# SQL text (written here, not with the serializer under test)
# ---------------------------------------------------------------------------

def lit(v, ty):
    ty = ty.upper()
    if ty == 'UNIQUE_ID':
        return '"%s"' % uuid.UUID(int=v or 0)
    if ty == 'INTEGER':
        return '%d' % (v or 0)
    if ty == 'STRING':
        return "'%s'" % (v or '').replace("'", "''")
    if ty == 'BOOLEAN':
        return 'TRUE' if v else 'FALSE'
    if ty == 'REAL':
        return '%f' % (v or 0.0)
    raise ValueError(ty)


def inserts(schema, rows, positional=False):
    out = []
    for kind, values in rows:
        attrs = schema.attrs(kind)
        if positional:
            out.append('INSERT INTO %s VALUES (%s);\n' % (kind, ', '.join(lit(values.get(n), t) for n, t in attrs)))
        else:
            cols = [(n, t) for n, t in attrs if values.get(n) is not None]
            out.append('INSERT INTO %s (%s) VALUES (%s);\n' %
                       (kind, ', '.join(n for n, _ in cols), ', '.join(lit(values[n], t) for n, t in cols)))
    return ''.join(out)


def model_text(schema, rows, positional=False):
    return schema.sql() + inserts(schema, rows, positional)


# ---------------------------------------------------------------------------
# the oracle
# ---------------------------------------------------------------------------

def reader(schema, ref, vals):
    '''read(idx, attr): the value of an attribute as the model defines it:
    referential attributes through the link, others as stored (None = unset).'''
    refs = dict((k, schema.referentials(k)) for k in schema.kinds())

    def read(i, name):
        if name in refs[ref.insts[i].kind]:
            return ref.attr(i, name)
        return vals[i].get(name)
    return read


def ident_expected(schema, ref, read, only=None):
    '''kind -> dict(accepted=[counts], nulls=, repeats=) per class (live pools).'''
    out = {}
    for kind, attrs in schema.classes:
        pool = ref.order[kind]
        if only is not None and kind not in only:
            continue
        if not pool:
            out[kind] = dict(accepted=[0], nulls=0, repeats=0, both=0)
            continue
        types = dict(attrs)
        idents = [(n, a) for k, n, a in schema.uniques if k.upper() == kind.upper()]
        declared, referred = [], []
        for _, a in idents:
            for x in a:
                if x not in declared:
                    declared.append(x)
        for a in schema.assocs:
            if a.tgt.upper() == kind.upper():
                for x in a.tkeys:
                    if x not in declared and x not in referred:
                        referred.append(x)

        def nulls(names):
            return sum(1 for i in pool for n in names if relmodel.is_null(read(i, n), types[n]))

        def reps(norm):
            pairs, insts = 0, set()
            for _, a in idents:
                seen = set()
                for i in pool:
                    key = tuple(norm(read(i, x), types[x]) for x in a)
                    if key in seen:
                        pairs += 1
                        insts.add(i)
                    seen.add(key)
            return pairs, len(insts)
        raw = reps(lambda v, ty: v)
        nrm = reps(lambda v, ty: None if relmodel.is_null(v, ty) else v)
        n1 = nulls(declared)
        ns = set([n1, nulls(declared + referred)]) if referred else set([n1])
        acc = sorted(set(n + r for n in ns for r in raw + nrm))
        out[kind] = dict(accepted=acc, nulls=n1, repeats=raw[0], both=int(raw[0] != raw[1]))
    return out


def sumset(sets):
    acc = set([0])
    for s in sets:
        acc = set(a + b for a in acc for b in s)
    return sorted(acc)


def end_stats(schema, ref):
    '''(under-populated, over-populated) (instance, end) pairs -- a second,
    separately written count used for the statistics and as a cross-check.'''
    under = over = 0
    for ai, a in enumerate(schema.assocs):
        for t in ref.order[ref._kind(a.tgt)]:
            c = len(ref.bwd[ai].get(t, ()))
            under += int(c == 0 and not a.scond)
            over += int(c > 1 and not a.smany)
        for s in ref.order[ref._kind(a.src)]:
            c = len(ref.fwd[ai].get(s, ()))
            under += int(c == 0 and not a.tcond)
            over += int(c > 1 and not a.tmany)
    return under, over


def supertypes(schema):
    '''(super kind, rel) for every number that formalises >= 2 classes onto one class (sub/super).'''
    out = []
    for rel in schema.rels():
        ass = [a for a in schema.assocs if a.rel == rel]
        tg = set(a.tgt for a in ass)
        if len(ass) >= 2 and len(tg) == 1 and all(not a.smany and not a.tmany and a.skeys == a.tkeys for a in ass):
            out.append((ass[0].tgt, rel))
    return out


def absent_numbers(schema):
    rels = schema.rels()
    out = []
    for n in [99] + [r * 10 + 1 for r in rels] + [r // 10 for r in rels if r >= 10]:
        if n not in rels and n not in out:
            out.append(n)
    return out


def kind_spellings(kind):
    out = [kind]
    for k in (kind.lower(), kind.upper()):
        if k not in out:
            out.append(k)
    return out


def compare(ctx, m, schema, ref, read, bad, light=False):
    '''Every API observation of the statement on metamodel *m* against the
    reference.  Returns the expected parts (for the command-line oracle).'''
    import xtuml
    exp_total = ref.association_violations()
    under, over = end_stats(schema, ref)
    if under + over != exp_total:
        raise core.HarnessError('reference self-check: %d+%d != %d' % (under, over, exp_total))
    ctx.count('evaluations')
    got_total = xtuml.check_association_integrity(m)
    if got_total != exp_total:
        kind = 'low' if got_total < exp_total else 'high'
        bad('association:total:%s' % kind, 'check_association_integrity(m) = %r, expected %r (%d under-, %d over-populated '
            '(instance, end) pairs)' % (got_total, exp_total, under, over), exp_total, got_total)
    per_rel = {}
    for rel in schema.rels():
        e = ref.association_violations(rel)
        per_rel[rel] = e
        for arg in (rel, 'R%d' % rel):
            ctx.count('evaluations')
            g = xtuml.check_association_integrity(m, arg)
            if g != e:
                bad('association:restricted', 'check_association_integrity(m, %r) = %r, expected %r' % (arg, g, e), e, g)
    if not light:
        for n in absent_numbers(schema):
            for arg in (n, 'R%d' % n):
                ctx.count('evaluations')
                g = xtuml.check_association_integrity(m, arg)
                if g != 0:
                    bad('association:absent-number', 'check_association_integrity(m, %r) = %r for a number the model '
                        'does not have (numbers: %s)' % (arg, g, schema.rels()), 0, g)

    ids = ident_expected(schema, ref, read)
    acc_total = sumset([v['accepted'] for v in ids.values()])
    ctx.count('evaluations')
    got_ids = xtuml.check_uniqueness_constraint(m)
    if got_ids not in acc_total:
        kind = 'low' if got_ids < acc_total[0] else 'high'
        bad('uniqueness:total:%s' % kind, 'check_uniqueness_constraint(m) = %r, expected %s (null identifying values: %d, '
            '(instance, identifier) repetitions: %d)' % (got_ids, acc_total, sum(v['nulls'] for v in ids.values()),
                                                        sum(v['repeats'] for v in ids.values())), acc_total, got_ids)
    parts = 0
    for kind in schema.kinds():
        sp = kind_spellings(kind)
        first = None
        for k in (sp[:1] if light else sp):
            ctx.count('evaluations')
            g = xtuml.check_uniqueness_constraint(m, k)
            if first is None:
                first = g
            if g not in ids[kind]['accepted']:
                lh = 'low' if g < ids[kind]['accepted'][0] else 'high'
                bad('uniqueness:restricted:%s' % lh, 'check_uniqueness_constraint(m, %r) = %r, expected %s' %
                    (k, g, ids[kind]['accepted']), ids[kind]['accepted'], g)
            elif g != first:
                bad('uniqueness:restricted:spelling', 'check_uniqueness_constraint(m, %r) = %r but %r for %r' %
                    (k, g, first, sp[0]), first, g)
        parts += first
    if parts != got_ids and got_ids in acc_total:
        bad('uniqueness:sum', 'check_uniqueness_constraint(m) = %r but the classes sum up to %r' % (got_ids, parts),
            parts, got_ids)

    ctx.count('evaluations')
    exp_cons = exp_total == 0 and acc_total == [0]
    got_cons = m.is_consistent()
    if got_cons is not exp_cons:
        bad('is_consistent', 'is_consistent() = %r with %d association and %s identifier violations' %
            (got_cons, exp_total, acc_total), exp_cons, got_cons)

    exp_sub = {}
    for sup, rel in supertypes(schema):
        subs = [a.src for a in schema.assocs if a.rel == rel]
        e = 0
        for p in ref.order[ref._kind(sup)]:
            if not any(ref.navigate(p, s, rel) for s in subs):
                e += 1
        exp_sub[(sup, rel)] = e
        for arg in (rel, 'R%d' % rel):
            for k in kind_spellings(sup)[:1 if light else 2]:
                ctx.count('evaluations')
                g = xtuml.check_subtype_integrity(m, k, arg)
                if g != e:
                    bad('subtype', 'check_subtype_integrity(m, %r, %r) = %r, expected %r supertype instances without '
                        'subtype' % (k, arg, g, e), e, g)
                if e:
                    ctx.count('subtype_violations_seen')

    ctx.count('models')
    nulls = sum(v['nulls'] for v in ids.values())
    reps = sum(v['repeats'] for v in ids.values())
    if under:
        ctx.count('models_with_underpopulated_end')
    if over:
        ctx.count('models_with_overpopulated_end')
    if nulls:
        ctx.count('models_with_null_identifier')
    if reps:
        ctx.count('models_with_repeated_identifier')
    if any(v['both'] for v in ids.values()):
        ctx.count('models_where_counting_rules_differ')
    if len(acc_total) > 1:
        ctx.count('models_with_several_accepted_counts')
    if exp_total or nulls or reps:
        ctx.count('models_with_violation')
    if (under or over) and (nulls or reps):
        ctx.count('models_with_both_kinds')
    if not (exp_total or nulls or reps):
        ctx.count('models_consistent')
    ctx.distinct('outcomes', (schema.name, got_total, got_ids, got_cons))
    return dict(assoc=exp_total, per_rel=per_rel, ids=ids, ids_total=acc_total)


def evaluate(ctx, schema, rows, family, positional=False, light=False, want_parts=False):
    '''Load one model from text and compare every observation.'''
    import xtuml
    case = dict(family=family, schema=schema_json(schema), rows=rows, positional=positional)
    text = model_text(schema, rows, positional)

    def bad(kind, msg, exp=None, got=None):
        ctx.violation('c11:%s' % kind, case, '%s model %s: %s' % (schema.name, json.dumps(rows), msg), exp, got,
                      unit_test=unit_test(text, kind))
    try:
        with core.time_limit(LIMIT_S):
            loader = xtuml.ModelLoader()
            loader.input(text)
            m = loader.build_metamodel(xtuml.IntegerGenerator())
            ref = relmodel.Ref(schema)
            ref.load(rows)
            vals = [dict(v) for _, v in rows]
            parts = compare(ctx, m, schema, ref, reader(schema, ref, vals), bad, light)
    except core.Timeout:
        bad('hang', 'no answer within %.0f s' % LIMIT_S)
        return None
    except core.HarnessError:
        raise
    except Exception as e:
        bad('exception', 'raised %s: %s' % (type(e).__name__, e), None, type(e).__name__)
        return None
    if want_parts:
        return parts, text
    return None


def unit_test(text, kind):
    return '\n'.join([
        'import xtuml',
        'l = xtuml.ModelLoader()',
        'l.input(%r)' % text,
        'm = l.build_metamodel()',
        '# failing observation: %s' % kind,
        'print(xtuml.check_association_integrity(m), xtuml.check_uniqueness_constraint(m), m.is_consistent())'])


# ---------------------------------------------------------------------------
# A -- association shapes x populations
# ---------------------------------------------------------------------------

# per shape: ({class: max instances}, keys of the referred id palette, own-id duplicates offered)
A_BOUNDS = {
    'quick': {
        'a_1c_1c': ({'A': 2, 'B': 3}, 2, False),
        'b_1_mc': ({'A': 2, 'B': 3}, 2, True),
        'c_mc_1c_other_side': ({'A': 3, 'B': 2}, 2, False),
        'd_m_m': ({'A': 2, 'B': 3}, 2, False),
        'e_reflexive_1c_1c': ({'A': 3}, 3, False),
        'e0_reflexive_unphrased': ({'A': 3}, 3, False),
        'f_reflexive_1_mc': ({'A': 3}, 3, False),
        'g_assoc_class': ({'A': 2, 'B': 1, 'C': 2}, 2, False),
        'g2_reflexive_assoc_class': ({'A': 2, 'C': 2}, 2, False),
        'h_subsuper': ({'P': 2, 'S1': 2, 'S2': 1}, 2, False),
    },
    'thorough': {
        'a_1c_1c': ({'A': 3, 'B': 3}, 2, True),
        'b_1_mc': ({'A': 3, 'B': 3}, 2, True),
        'c_mc_1c_other_side': ({'A': 3, 'B': 3}, 2, True),
        'd_m_m': ({'A': 3, 'B': 3}, 2, True),
        'e_reflexive_1c_1c': ({'A': 4}, 3, False),
        'e0_reflexive_unphrased': ({'A': 4}, 3, False),
        'f_reflexive_1_mc': ({'A': 4}, 3, False),
        'g_assoc_class': ({'A': 2, 'B': 2, 'C': 2}, 2, True),
        'g2_reflexive_assoc_class': ({'A': 3, 'C': 2}, 2, True),
        'h_subsuper': ({'P': 3, 'S1': 2, 'S2': 2}, 2, False),
    },
}
# type-name spellings: the default (lower, as in schemas.py) gets the full bound; the deviations a reduced one in quick
SPELLINGS = ['lower', 'upper', 'mixed']


def a_bounds(tier, name, how):
    caps, keys, own = A_BOUNDS[tier][name]
    if how != 'lower':
        # deviations from the default spelling: the quick bounds in the thorough tier, a reduced bound in the quick tier
        caps, keys, own = A_BOUNDS['quick'][name]
        if tier == 'quick':
            caps = dict((k, min(v, 2)) for k, v in caps.items())
            own = False
    return caps, keys, own


def a_sizes(tier, schema, how, caps):
    out = []
    for sizes in itertools.product(*[range(caps[k] + 1) for k in schema.kinds()]):
        if tier == 'quick' and how != 'lower' and sum(sizes) > 3:
            continue        # deviations from the default spelling: at most three instances in the quick tier
        out.append(sizes)
    return out


def slots(schema, sizes, keys, own):
    '''[(row index, attr, palette)] for a population of the given sizes, plus the row kinds.'''
    referred = set(a.tgt for a in schema.assocs)
    kinds, out = [], []
    for ci, ((kind, attrs), n) in enumerate(zip(schema.classes, sizes)):
        refs = schema.referentials(kind)
        for j in range(n):
            ri = len(kinds)
            kinds.append(kind)
            for name, _ in attrs:
                if name in refs:
                    out.append((ri, name, [NULL, K1, K2, DANGLING]))
                elif name == 'Id':
                    if kind in referred:
                        out.append((ri, name, [K1, K2, K3][:keys] + [NULL]))
                    else:
                        u = 201 + 10 * ci + j
                        out.append((ri, name, [u, DUP] if own and n > 1 else [u]))
    return kinds, out


def a_tasks(tier):
    tasks = []
    for name in sorted(A_BOUNDS[tier]):
        for how in SPELLINGS:
            caps, keys, own = a_bounds(tier, name, how)
            schema = shape(name, how)
            for sizes in a_sizes(tier, schema, how, caps):
                _, sl = slots(schema, sizes, keys, own)
                total = 1
                for s in sl:
                    total *= len(s[2])
                nsl = max(1, total // 1500)
                for k in range(nsl):
                    tasks.append(['A', name, how, list(sizes), k, nsl])
    return tasks


def a_run(ctx, task):
    _, name, how, sizes, k, nsl = task
    caps, keys, own = a_bounds(ctx.tier, name, how)
    schema = shape(name, how)
    kinds, sl = slots(schema, sizes, keys, own)
    for idx, choice in enumerate(itertools.product(*[s[2] for s in sl])):
        if idx % nsl != k:
            continue
        # every model twice: nulls written as id 0 in positional INSERTs (the BridgePoint style), and nulls as
        # absent columns of named INSERTs
        for nullform, positional in ((0, True), (None, False)):
            rows = [[kd, {'Z': 1}] for kd in kinds]
            for (ri, attr, _), v in zip(sl, choice):
                if v == NULL:
                    v = nullform
                if v is not None:
                    rows[ri][1][attr] = v
            evaluate(ctx, schema, rows, 'assoc', positional=positional)
            ctx.distinct('inputs', (name, how, idx, tuple(sizes), nullform))
    return None


# ---------------------------------------------------------------------------
# B -- identifier sets
# ---------------------------------------------------------------------------

B_TYPES = ['UNIQUE_ID', 'INTEGER', 'STRING']
B_VALUES = {'UNIQUE_ID': [None, 0, 1, 2], 'INTEGER': [None, 1, 2], 'STRING': [None, 'a', 'b']}
# identifier lists over the attributes A, B (C only in the last one: two identifiers sharing exactly B)
B_IDSETS = [[]] + [[a] for a in (['A'], ['B'], ['A', 'B'])] + \
           [[a, b] for a in (['A'], ['B'], ['A', 'B']) for b in (['A'], ['B'], ['A', 'B'])] + [[['A', 'B'], ['B', 'C']]]
B_SPELL = [('upper', 'upper'), ('lower', 'upper'), ('mixed', 'upper'), ('upper', 'lower'), ('upper', 'mixed')]
B_MAXN = {'quick': 2, 'thorough': 3}


def b_schema(ta, tb, sa, sb, idset):
    uniques = [('X', 'I%d' % (i + 1), attrs) for i, attrs in enumerate(idset)]
    return relmodel.Schema('ident_%s_%s' % (ta.lower(), tb.lower()),
                           [('X', [('A', spell(ta, sa)), ('B', spell(tb, sb)), ('C', 'INTEGER')])], [], uniques)


def b_tasks(tier):
    tasks = []
    for ta in B_TYPES:
        for tb in B_TYPES:
            for si in range(len(B_SPELL)):
                for ii in range(len(B_IDSETS)):
                    for n in range(B_MAXN[tier] + 1):
                        if n > 2 and si:
                            continue        # three instances: upper-case type names only
                        tasks.append(['B', ta, tb, si, ii, n])
    if tier == 'quick':
        # (round 8, C11-16) three instances also in the quick tier for the identifier lists holding two identifiers, over
        # integer attributes: an instance that repeats one identifier of an earlier instance still counts for the other one
        for ii, idset in enumerate(B_IDSETS):
            if len(idset) == 2:
                tasks.append(['B', 'INTEGER', 'INTEGER', 0, ii, 3])
    return tasks


def b_run(ctx, task):
    _, ta, tb, si, ii, n = task
    idset = B_IDSETS[ii]
    schema = b_schema(ta, tb, B_SPELL[si][0], B_SPELL[si][1], idset)
    cvals = [1, 2] if any('C' in a for a in idset) else [1]
    per = [B_VALUES[ta], B_VALUES[tb], cvals]
    for idx, choice in enumerate(itertools.product(*(per * n))):
        rows = []
        for j in range(n):
            vals = {}
            for name, v in zip('ABC', choice[3 * j:3 * j + 3]):
                if v is not None:
                    vals[name] = v
            rows.append(['X', vals])
        evaluate(ctx, schema, rows, 'ident')
        ctx.distinct('inputs', ('B', ta, tb, si, ii, n, idx))
    return None


# ---------------------------------------------------------------------------
# C -- composite model, restrictions, command line
# ---------------------------------------------------------------------------

def composite():
    A = relmodel.Assoc
    ID = ('Id', 'UNIQUE_ID')
    Z = ('Z', 'INTEGER')
    classes = [('A', [ID, Z]), ('B', [ID, ('A_Id', 'UNIQUE_ID'), Z]),
               ('D', [ID, Z]), ('E', [ID, ('D_Id', 'UNIQUE_ID'), Z]),
               ('N', [ID, ('Next_Id', 'UNIQUE_ID'), Z]),
               ('P', [ID, Z]), ('S1', [ID, Z]), ('S2', [ID, Z])]
    assocs = [A(1, 'B', ['A_Id'], True, True, '', 'A', ['Id'], False, False, ''),
              A(11, 'E', ['D_Id'], True, False, '', 'D', ['Id'], True, False, ''),
              A(12, 'N', ['Next_Id'], False, True, 'prev', 'N', ['Id'], False, True, 'next'),
              A(4, 'S1', ['Id'], False, True, '', 'P', ['Id'], False, False, ''),
              A(4, 'S2', ['Id'], False, True, '', 'P', ['Id'], False, False, '')]
    uniques = [(k, 'I1', ['Id']) for k, _ in classes]
    return relmodel.Schema('composite', classes, assocs, uniques)


def r(kind, **kw):
    kw.setdefault('Z', 1)
    return [kind, kw]


# scenarios per component; the first two of each list form the quick set
C_SCENARIOS = [
    # R1: B MC -> A 1
    [[r('A', Id=K1), r('B', Id=201, A_Id=K1)],                                  # consistent
     [r('A', Id=K1), r('A', Id=K1), r('B', Id=201, A_Id=K1), r('B', Id=202, A_Id=DANGLING)],   # over + under + repeat
     [r('A', Id=0), r('B', Id=201, A_Id=0), r('B', Id=201, A_Id=K2)],            # null id, null ref, repeat
     []],
    # R11: E M -> D M
    [[r('D', Id=K1), r('E', Id=211, D_Id=K1)],
     [r('D', Id=K1), r('D', Id=K2), r('E', Id=211, D_Id=K1), r('E', Id=212)],    # D2 without E, E2 without D
     []],
    # R12: reflexive 1C:1C
    [[],
     [r('N', Id=K1, Next_Id=K3), r('N', Id=K2, Next_Id=K3), r('N', Id=K3)],      # K3 referred twice: over-populated
     [r('N', Id=K1, Next_Id=K2), r('N', Id=K2), r('N', Id=K2)]],                 # referring to two: over + repeat
    # R4: sub/super
    [[r('P', Id=K1), r('S1', Id=K1)],
     [r('P', Id=K1), r('P', Id=K2), r('S2', Id=K2), r('S1', Id=DANGLING)],       # P1 without subtype, dangling S1
     [r('P', Id=K1), r('S1', Id=K1), r('S2', Id=K1)]],                           # both subtypes
]
C_RELS = [1, 11, 12, 4, 99]
C_KINDS = ['a', 'N', 's1']


def c_tasks(tier):
    pick = [range(2 if tier == 'quick' else len(sc)) for sc in C_SCENARIOS]
    nr = len(subsets(C_RELS))
    return [['C', list(ch), ri] for ch in itertools.product(*pick) for ri in range(nr)]


def subsets(xs):
    out = []
    for n in range(len(xs) + 1):
        out.extend(list(c) for c in itertools.combinations(xs, n))
    return out


def exit_status(modname, argv):
    '''Exit status of the module run as __main__ in this process.'''
    import runpy
    import sys
    import warnings
    old = sys.argv
    sys.argv = [modname] + list(argv)
    try:
        with warnings.catch_warnings():
            warnings.simplefilter('ignore')
            runpy.run_module(modname, run_name='__main__')
        return 0
    except SystemExit as e:
        return os_status(e.code)
    finally:
        sys.argv = old


def os_status(code):
    '''The exit status a process ends with after sys.exit(code): None -> 0, an integer -> its low eight bits (what
    exit(3) leaves of it), anything else is printed and the status is 1.'''
    if code is None:
        return 0
    if isinstance(code, int):
        return int(code) & 0xff
    return 1


def quiet_main(mod, argv):
    '''Return value of mod.main(argv) ('exit:<n>' if it exits).'''
    import contextlib
    import io
    buf = io.StringIO()
    # every judged call is preceded, within the same case, by a restricted call on the same files whose result is
    # ignored: the answer must not depend on what an earlier call in the process asked for (and a case that does
    # depend on it stays reproducible on replay)
    try:
        with contextlib.redirect_stdout(buf), contextlib.redirect_stderr(buf):
            mod.main(['-r', '1', '-k', 'NoSuchClassForPriming'] + list(argv))
    except BaseException:
        pass
    try:
        with contextlib.redirect_stdout(buf), contextlib.redirect_stderr(buf):
            return mod.main(list(argv))
    except SystemExit as e:
        return 'exit:%r' % (e.code,)


def quiet_exit(modname, argv):
    import contextlib
    import io
    buf = io.StringIO()
    with contextlib.redirect_stdout(buf), contextlib.redirect_stderr(buf):
        return exit_status(modname, argv)


def write_tmp(name, text):
    from mc import bootstrap
    path = os.path.join(bootstrap.tmpdir(), 'c11-%d-%s' % (os.getpid(), name))
    with open(path, 'w') as f:
        f.write(text)
    return path


def cli_expected(parts, rels, kinds, schema):
    '''Accepted return values of main for the given -r / -k selection.'''
    if rels:
        assoc = sum(parts['per_rel'].get(n, 0) for n in rels)
    else:
        assoc = parts['assoc']
    if kinds:
        by_upper = dict((k.upper(), v['accepted']) for k, v in parts['ids'].items())
        ids = sumset([by_upper[k.upper()] for k in kinds])
    else:
        ids = parts['ids_total']
    return [assoc + i for i in ids]


def cli_check(ctx, schema, rows, rels, kinds, split, parts=None, text=None):
    '''One command line of xtuml.consistency_check: return value and exit status.'''
    import xtuml.consistency_check as cc
    case = dict(family='cli', schema=schema_json(schema), rows=rows, rels=rels, kinds=kinds, split=split)
    if parts is None:
        res = evaluate(ctx, schema, rows, 'composite', want_parts=True, light=True)
        if res is None:
            return
        parts, text = res
    argv = []
    for n in rels:
        argv += ['-r' if n % 2 else '-R', str(n)]
    for k in kinds:
        argv += ['-k', k]
    if split:
        files = [write_tmp('schema.sql', schema.sql()), write_tmp('data.sql', inserts(schema, rows))]
    else:
        files = [write_tmp('model.sql', text)]
    argv = (argv + files) if len(rels) % 2 else (files + argv)
    exp = cli_expected(parts, rels, kinds, schema)
    shown = [a if not a.startswith('/') else '<file>' for a in argv]

    def bad(kind, msg, e=None, g=None):
        ctx.violation('c11:%s' % kind, case, 'composite model %s, xtuml.consistency_check %s: %s' %
                      (json.dumps(rows), ' '.join(shown), msg), e, g,
                      unit_test='# files: %s\nimport xtuml.consistency_check\nprint(xtuml.consistency_check.main(%r))' %
                      (' + '.join('schema / data' if split else ['model']), shown))
    try:
        with core.time_limit(LIMIT_S):
            ctx.count('cli_runs')
            ctx.count('evaluations')
            got = quiet_main(cc, argv)
            if got not in exp:
                sel = 'restricted' if (rels or kinds) else 'all'
                if kinds and not rels and isinstance(got, int) and got + parts['assoc'] in exp:
                    sel = 'k-drops-associations'
                bad('cli:return:%s' % sel, 'main returned %r, expected %s (associations %s, identifiers %s)' %
                    (got, exp, parts['per_rel'], dict((k, v['accepted']) for k, v in parts['ids'].items())), exp, got)
            ctx.count('cli_runs')
            ctx.count('evaluations')
            st = quiet_exit('xtuml.consistency_check', argv)
            want = int(any(e > 0 for e in exp))
            if (st != 0) != bool(want):
                bad('cli:exit', 'exit status %r with %s violations selected' % (st, exp), want, st)
            ctx.distinct('cli_outcomes', (got if isinstance(got, int) else str(got), st))
            if exp[0] > 0:
                ctx.count('cli_runs_with_violations')
            else:
                ctx.count('cli_runs_clean')
            if exp[0] == 0 and parts['assoc'] + parts['ids_total'][0] > 0:
                ctx.count('cli_runs_restricted_to_clean_part')
    except core.Timeout:
        bad('hang', 'no answer within %.0f s' % LIMIT_S)
    except Exception as e:
        bad('cli:exception', 'raised %s: %s' % (type(e).__name__, e), None, type(e).__name__)
    finally:
        for f in files:
            try:
                os.unlink(f)
            except OSError:
                pass


def c_rows(choice):
    rows = []
    for sc, i in zip(C_SCENARIOS, choice):
        rows.extend(json.loads(json.dumps(sc[i])))
    return rows


def c_run(ctx, task):
    schema = composite()
    rows = c_rows(task[1])
    # the API observations once per model (task with the empty -r selection), quietly for the others
    first = task[2] == 0
    res = evaluate(ctx if first else core.Ctx(ctx.prop, ctx.tier, ctx.seed), schema, rows, 'composite', want_parts=True)
    if res is None:
        return None
    parts, text = res
    if first:
        ctx.distinct('inputs', ('C', tuple(task[1])))
    rels = subsets(C_RELS)[task[2]]
    for n, kinds in enumerate(subsets(C_KINDS)):
        cli_check(ctx, schema, rows, rels, kinds, split=((n + task[2]) % 3 == 0), parts=parts, text=text)
    return None


# ---------------------------------------------------------------------------
# D -- bridgepoint.consistency_check (ooaofooa schema)
# ---------------------------------------------------------------------------

_OOA = {}


def ooa_schema():
    '''The ooaofooa schema as a relmodel.Schema, parsed here from the schema text.'''
    if 'schema' in _OOA:
        return _OOA['schema']
    from bridgepoint import schema as bps
    classes = []
    for m in re.finditer(r'CREATE\s+TABLE\s+(\w+)\s*\((.*?)\)\s*;', bps.classes, re.S):
        attrs = [tuple(a.split()) for a in m.group(2).split(',') if a.strip()]
        classes.append((m.group(1), attrs))
    end = r"(1C|1|MC|M)\s+(\w+)\s*\(([^)]*)\)(?:\s*PHRASE\s*'([^']*)')?"
    assocs = []
    for m in re.finditer(r'CREATE\s+ROP\s+REF_ID\s+R(\d+)\s+FROM\s+%s\s+TO\s+%s\s*;' % (end, end), bps.associations):
        rel, c1, k1, keys1, p1, c2, k2, keys2, p2 = m.groups()
        assocs.append(relmodel.Assoc(int(rel), k1, [x.strip() for x in keys1.split(',')], 'M' in c1, 'C' in c1, p1 or '',
                                     k2, [x.strip() for x in keys2.split(',')], 'M' in c2, 'C' in c2, p2 or ''))
    uniques = []
    for m in re.finditer(r'CREATE\s+UNIQUE\s+INDEX\s+(\w+)\s+ON\s+(\w+)\s*\(([^)]*)\)\s*;', bps.indices):
        uniques.append((m.group(2), m.group(1), [x.strip() for x in m.group(3).split(',')]))
    n = (len(re.findall(r'CREATE\s+TABLE', bps.classes)), len(re.findall(r'CREATE\s+ROP', bps.associations)),
         len(re.findall(r'CREATE\s+UNIQUE', bps.indices)))
    if n != (len(classes), len(assocs), len(uniques)) or min(n) < 100:
        raise core.HarnessError('ooaofooa schema text not understood: %r vs %r' % (n, (len(classes), len(assocs), len(uniques))))
    _OOA['schema'] = FastSchema('ooaofooa', classes, assocs, uniques)
    return _OOA['schema']


class FastSchema(relmodel.Schema):
    '''Same definitions; lookups cached (the ooaofooa schema has 324 classes and 646 associations).'''
    def attrs(self, kind):
        c = self.__dict__.setdefault('_attrs', {})
        if kind not in c:
            c[kind] = relmodel.Schema.attrs(self, kind)
        return c[kind]

    def referentials(self, kind):
        c = self.__dict__.setdefault('_refs', {})
        if kind not in c:
            c[kind] = relmodel.Schema.referentials(self, kind)
        return c[kind]

    def kinds(self):
        if '_kinds' not in self.__dict__:
            self.__dict__['_kinds'] = relmodel.Schema.kinds(self)
        return self.__dict__['_kinds']


class FastRef(relmodel.Ref):
    def _kind(self, kind):
        c = self.__dict__.setdefault('_kinds', {})
        if kind not in c:
            c[kind] = relmodel.Ref._kind(self, kind)
        return c[kind]


TOKEN = re.compile(r"""\s*(?:(--[^\n]*)|("[^"]*")|('(?:''|[^'])*')|(-?\d+\.\d+)|(-?\d+)|(\w+)|([(),;]))""")


def parse_rows(schema, text):
    '''Rows of positional INSERT statements (the BridgePoint file format), read with a tokenizer written here.'''
    toks = []
    pos = 0
    while pos < len(text):
        m = TOKEN.match(text, pos)
        if not m:
            if text[pos:].strip():
                raise core.HarnessError('cannot tokenize %r' % text[pos:pos + 40])
            break
        pos = m.end()
        if m.group(1) is None:
            toks.append(m)
    rows = []
    i = 0
    while i < len(toks):
        if toks[i].group(6) and toks[i].group(6).upper() == 'INSERT':
            kind = toks[i + 2].group(6)
            i += 5            # INSERT INTO kind VALUES (
            vals = []
            while toks[i].group(7) != ')':
                t = toks[i]
                if t.group(2):
                    vals.append(uuid.UUID(t.group(2)[1:-1]).int)
                elif t.group(3):
                    vals.append(t.group(3)[1:-1].replace("''", "'"))
                elif t.group(4):
                    vals.append(float(t.group(4)))
                elif t.group(5):
                    vals.append(int(t.group(5)))
                elif t.group(6):
                    vals.append(t.group(6).upper() == 'TRUE')
                i += 1
            attrs = schema.attrs(kind)
            if len(attrs) != len(vals):
                raise core.HarnessError('row of %s has %d values' % (kind, len(vals)))
            row = {}
            for (n, ty), v in zip(attrs, vals):
                if ty.upper() == 'BOOLEAN':
                    v = bool(v)
                row[n] = v
            rows.append([kind, row])
        i += 1
    return rows


BP1, BP2 = 0x5eed0001, 0x5eed0002
D_BASE = [
    ['PE_PE', dict(Element_ID=BP1, Visibility=True, Package_ID=0, Component_ID=0, type=3)],
    ['S_DT', dict(DT_ID=BP1, Dom_ID=0, Name='alpha', Descrip='', DefaultValue='')],
    ['S_CDT', dict(DT_ID=BP1, Core_Typ=2)],
    ['PE_PE', dict(Element_ID=BP2, Visibility=True, Package_ID=0, Component_ID=0, type=3)],
    ['S_DT', dict(DT_ID=BP2, Dom_ID=0, Name='beta', Descrip='', DefaultValue='')],
    ['S_CDT', dict(DT_ID=BP2, Core_Typ=3)],
]
D_OPTS = {
    'quick': [[[], []], [[8001], []], [[17, 80], []], [[], ['S_DT']], [[], ['pe_pe', 'S_CDT']], [[17], ['S_DT']]],
    'thorough': [[rs, ks] for rs in subsets([8001, 17]) for ks in ([], ['S_DT'], ['S_DT', 'pe_pe'])] +
                [[[80], []], [[17, 80], ['S_CDT']], [[], ['pe_pe']]],
}


def d_models(tier):
    out = []
    idx = list(range(len(D_BASE)))
    for sub in subsets(idx):
        out.append([sub, None])
        if len(sub) >= (4 if tier == 'thorough' else len(idx)):
            for d in sub:
                out.append([sub, d])
    return out


def d_tasks(tier):
    tasks = []
    for sub, dup in d_models(tier):
        for rels, kinds in D_OPTS[tier]:
            tasks.append(['D', sub, dup, rels, kinds, False])
    # with -g: the built-in globals join the model
    for sub, dup in ([[0, 1, 2], None], [[1, 2], None], [[], None], [[0, 1, 2], 0]):
        for rels, kinds in D_OPTS[tier][:6]:
            tasks.append(['D', sub, dup, rels, kinds, True])
    return tasks


def d_rows(sub, dup):
    rows = [json.loads(json.dumps(D_BASE[i])) for i in sub]
    if dup is not None:
        rows.append(json.loads(json.dumps(D_BASE[dup])))
    return rows


def d_run(ctx, task):
    _, sub, dup, rels, kinds, glob = task
    bp_check(ctx, d_rows(sub, dup), rels, kinds, glob)
    ctx.distinct('inputs', ('D', tuple(sub), dup, glob))
    return None


def bp_expected(schema, rows, rels, kinds, glob):
    '''Accepted return values of bridgepoint.consistency_check.main (+ the parts they are made of).'''
    from bridgepoint import schema as bps
    all_rows = (parse_rows(schema, bps.globals) if glob else []) + rows
    ref = FastRef(schema)
    ref.load(all_rows)
    vals = [dict(v) for _, v in all_rows]
    read = reader(schema, ref, vals)
    used = []
    for k, _ in all_rows:
        if k not in used:
            used.append(k)
    want_kinds = used if not kinds else [schema.attrs(k) and ref._kind(k) for k in kinds]
    ids = ident_expected(schema, ref, read, only=set(want_kinds))
    if rels:
        assoc = sum(ref.association_violations(n) for n in rels)
    else:
        assoc = ref.association_violations()
    exp = [assoc + i for i in sumset([ids[k]['accepted'] for k in want_kinds])]
    return exp, assoc, ids, want_kinds


def bp_text(schema, rows):
    return '-- BP 7.1 content: c11 syschar: 3 persistence-version: 7.1.5\n\n' + inserts(schema, rows, positional=True)


def bp_check(ctx, rows, rels, kinds, glob):
    import bridgepoint.consistency_check as bcc
    from bridgepoint import schema as bps
    schema = ooa_schema()
    case = dict(family='bp', schema='ooaofooa', rows=rows, rels=rels, kinds=kinds, globals=glob)
    text = bp_text(schema, rows)
    path = write_tmp('model.xtuml', text)
    argv = [path]
    for n in rels:
        argv += ['-r', str(n)]
    for k in kinds:
        argv += ['-k', k]
    if glob:
        argv.append('-g')
    shown = ['<model.xtuml>'] + argv[1:]

    def bad(kind, msg, e=None, g=None):
        ctx.violation('c11:%s' % kind, case, 'BridgePoint model %s, bridgepoint.consistency_check %s: %s' %
                      (json.dumps(rows), ' '.join(shown), msg), e, g,
                      unit_test='# model.xtuml:\n# %s\nimport bridgepoint.consistency_check\n'
                                'print(bridgepoint.consistency_check.main(%r))' % (text.replace('\n', '\n# '), shown))
    try:
        exp, assoc, ids, want_kinds = bp_expected(schema, rows, rels, kinds, glob)
        with core.time_limit(LIMIT_S):
            ctx.count('bp_cli_runs')
            ctx.count('evaluations')
            got = quiet_main(bcc, argv)
            if got not in exp:
                bad('bpcli:return', 'main returned %r, expected %s (associations %d, identifiers %s)' %
                    (got, exp, assoc, dict((k, ids[k]['accepted']) for k in want_kinds)), exp, got)
            ctx.count('bp_cli_runs')
            ctx.count('evaluations')
            st = quiet_exit('bridgepoint.consistency_check', argv)
            want = int(any(e > 0 for e in exp))
            if (st != 0) != bool(want):
                bad('bpcli:exit', 'exit status %r with %s violations selected' % (st, exp), want, st)
        ctx.distinct('bp_outcomes', (got if isinstance(got, int) else str(got), st))
        ctx.count('bp_runs_with_violations' if exp[0] > 0 else 'bp_runs_clean')
    except core.Timeout:
        bad('hang', 'no answer within %.0f s' % LIMIT_S)
    except core.HarnessError:
        raise
    except Exception as e:
        bad('bpcli:exception', 'raised %s: %s' % (type(e).__name__, e), None, type(e).__name__)
    finally:
        try:
            os.unlink(path)
        except OSError:
            pass



# ---------------------------------------------------------------------------
# P -- the tools as real processes: the exit status the operating system reports
# ---------------------------------------------------------------------------

# numbers of violations around the points where a status taken from the count would wrap (the status has eight bits)
P_COUNTS = {'quick': [0, 1, 255, 256, 257, 512], 'thorough': [0, 1, 2, 128, 255, 256, 257, 511, 512, 513, 768, 1024]}

LAUNCHER = """
import os, runpy, sys
scratch, repo, mod = sys.argv[1], sys.argv[2], sys.argv[3]
# the tree under test, not the editable install (its finder would also serve stale parser tables)
sys.meta_path[:] = [f for f in sys.meta_path if '__editable__' not in getattr(f, '__module__', '')
                    and '__editable__' not in getattr(f, '__name__', '') and '_EditableFinder' not in repr(f)]
sys.path_hooks[:] = [h for h in sys.path_hooks if '__editable__' not in getattr(h, '__module__', '') and '__editable__' not in repr(h)]
sys.path[:] = [p for p in sys.path if '__editable__' not in p and os.path.abspath(p or '.') != os.path.abspath(repo)
               and os.path.abspath(p or '.') != os.path.dirname(os.path.abspath(__file__))]
sys.path_importer_cache.clear()
sys.path.insert(0, scratch)
import xtuml, bridgepoint
for m in (xtuml, bridgepoint):
    if not os.path.realpath(m.__file__).startswith(os.path.realpath(scratch) + os.sep):
        sys.stderr.write('C11-LAUNCHER-ERROR: %s loaded from %s\\n' % (m.__name__, m.__file__))
        sys.stderr.flush()
        os._exit(3)
sys.argv = [mod] + sys.argv[4:]
runpy.run_module(mod, run_name='__main__', alter_sys=True)      # = python -m <mod> <args>
"""


def process_status(modname, argv):
    '''(exit status, stderr) of `python -m modname argv...` run as a process of its own on the tree under test.'''
    import subprocess
    import sys
    from mc import bootstrap
    launcher = os.path.join(bootstrap.tmpdir(), 'c11-launcher.py')
    if not os.path.exists(launcher):
        tmp = '%s.%d' % (launcher, os.getpid())
        with open(tmp, 'w') as f:
            f.write(LAUNCHER)
        os.rename(tmp, launcher)
    env = dict(os.environ)
    env.pop('PYTHONPATH', None)
    res = subprocess.run([sys.executable, launcher, bootstrap.scratch(), bootstrap.REPO, modname] + list(argv),
                         stdin=subprocess.DEVNULL, stdout=subprocess.DEVNULL, stderr=subprocess.PIPE, env=env,
                         cwd=bootstrap.tmpdir())
    err = res.stderr.decode('utf-8', 'replace')
    if 'C11-LAUNCHER-ERROR' in err:
        raise core.HarnessError('the tool did not run on the tree under test: %s' % err.strip()[-300:])
    return res.returncode, err


def p_rows(spec):
    '''A composite-schema model with a chosen number of violations: b rows of B referring to an A that is not there (one R1
    violation each), e rows of E without a D (one R11 violation each), n rows of N with one and the same identifier (n - 1
    repetitions, no association violation); cdt rows of S_CDT without their S_DT (BridgePoint tool, one R17 violation each).'''
    rows = []
    for i in range(spec.get('b', 0)):
        rows.append(r('B', Id=1000 + i, A_Id=DANGLING))
    for i in range(spec.get('e', 0)):
        rows.append(r('E', Id=3000 + i))
    for i in range(spec.get('n', 0)):
        rows.append(r('N', Id=K1))
    for i in range(spec.get('cdt', 0)):
        rows.append(['S_CDT', dict(DT_ID=0x7000 + i, Core_Typ=2)])
    return rows


def p_tasks(tier):
    t = [['P', 'xtuml', dict(b=c), [], []] for c in P_COUNTS[tier]]
    t += [['P', 'xtuml', dict(b=256, e=3), [1], []],          # 259 violations, -r selects 256 of them
          ['P', 'xtuml', dict(b=256, e=3), [11], []],         # ... and 3 of them
          ['P', 'xtuml', dict(b=256), [12], []],              # 256 violations, none of them selected
          ['P', 'xtuml', dict(b=2, n=257), [12], ['n']],      # -k selects 256 identifier violations
          ['P', 'xtuml', dict(b=255, e=1), [], []],           # 256 over two associations
          ['P', 'xtuml', dict(b=254, n=3), [], []]]           # 254 association + 2 identifier violations
    # (an S_CDT without its S_DT: one R17 violation, a null identifying value, and from the second row on a repetition of it)
    t += [['P', 'bridgepoint', dict(cdt=0), [], []],
          ['P', 'bridgepoint', dict(cdt=256), [17], ['S_DT']],      # 256 association violations selected
          ['P', 'bridgepoint', dict(cdt=171), [], []]]               # 171 + 171 + 170 = 512
    if tier == 'thorough':
        t += [['P', 'xtuml', dict(b=512, e=5), [1], []], ['P', 'xtuml', dict(n=513), [99], ['N']],
              ['P', 'bridgepoint', dict(cdt=256), [], []], ['P', 'bridgepoint', dict(cdt=1), [17], ['S_CDT']],
              ['P', 'bridgepoint', dict(cdt=512), [17, 8001], ['pe_pe']]]
    return t


def p_run(ctx, task):
    p_check(ctx, task[1], task[2], task[3], task[4])
    ctx.distinct('inputs', ('P', task[1], json.dumps(task[2], sort_keys=True)))
    return None


def p_check(ctx, tool, spec, rels, kinds):
    '''One command line as a real process: its exit status is non-zero exactly when violations are selected.'''
    case = dict(family='proc', tool=tool, spec=spec, rels=rels, kinds=kinds)
    rows = p_rows(spec)
    modname = '%s.consistency_check' % tool
    argv = []
    for n in rels:
        argv += ['-r', str(n)]
    for k in kinds:
        argv += ['-k', k]

    def bad(kind, msg, e=None, g=None):
        ctx.violation('c11:%s' % kind, case, 'model %s, python -m %s %s <model file>: %s' %
                      (json.dumps(spec, sort_keys=True), modname, ' '.join(argv), msg), e, g,
                      unit_test='# model file: %s\n# (rows as produced by mc.props.c11.p_rows(%r))\n'
                                'import subprocess, sys\nprint(subprocess.call([sys.executable, "-m", %r] + %r + [MODEL_FILE]))' %
                                (json.dumps(spec, sort_keys=True), spec, modname, argv))
    path = None
    try:
        with core.time_limit(LIMIT_S * 6):
            if tool == 'xtuml':
                import xtuml.consistency_check as mod
                schema = composite()
                res = evaluate(ctx, schema, rows, 'composite', want_parts=True, light=True)
                if res is None:
                    return
                parts, text = res
                exp = cli_expected(parts, rels, kinds, schema)
                path = write_tmp('proc-model.sql', text)
            else:
                import bridgepoint.consistency_check as mod
                schema = ooa_schema()
                exp = bp_expected(schema, rows, rels, kinds, False)[0]
                path = write_tmp('proc-model.xtuml', bp_text(schema, rows))
            ctx.count('evaluations')
            got = quiet_main(mod, argv + [path])
            if got not in exp:
                bad('proc:return', 'main returned %r, expected %s' % (got, exp), exp, got)
                return
            ctx.count('proc_runs')
            ctx.count('evaluations')
            st, err = process_status(modname, argv + [path])
            want = int(any(e > 0 for e in exp))
            if 'Traceback' in err:
                bad('proc:exception', 'the process ended with status %r and a traceback: %s' % (st, err.strip()[-400:]), want, st)
                return
            if (st != 0) != bool(want):
                bad('proc:exit', 'the process ended with exit status %r although %s violations are selected (main returns %r)' %
                    (st, exp, got), 'non-zero' if want else 0, st)
                return
            ctx.distinct('proc_outcomes', (tool, exp[0], st))
            ctx.count('proc_runs_with_violations' if want else 'proc_runs_clean')
            if exp[0] and exp[0] % 256 == 0:
                ctx.count('proc_runs_with_a_multiple_of_256_violations')
            if (rels or kinds) and exp[0] and exp[0] % 256 == 0:
                ctx.count('proc_runs_restricted_to_a_multiple_of_256_violations')
    except core.Timeout:
        bad('hang', 'no answer within %.0f s' % (LIMIT_S * 6))
    except core.HarnessError:
        raise
    except Exception as e:
        bad('proc:exception', 'raised %s: %s' % (type(e).__name__, e), None, type(e).__name__)
    finally:
        if path:
            try:
                os.unlink(path)
            except OSError:
                pass


# ---------------------------------------------------------------------------
# E -- API histories (C02's state space, accepted operations only, plus identifier writes)
# ---------------------------------------------------------------------------

class HistModel(c02.CappedModel):
    limit_s = LIMIT_S

    def __init__(self, schema, caps, seeds):
        c02.CappedModel.__init__(self, schema, max(caps.values()), caps)
        self.seeds = seeds

    def case(self, hist, op):
        return dict(family='hist', shape=self.schema.name, caps=self.caps, hist=hist, op=op)

    def initial(self):
        return [[]] + [[['load', rows]] for rows in self.seeds]

    def build(self, hist):
        import xtuml
        w = c02.World()
        w.ref = relmodel.Ref(self.schema)
        w.handles, w.label, w.vals = [], {}, []
        rest = hist
        if hist and hist[0][0] == 'load':
            rows = hist[0][1]
            loader = xtuml.ModelLoader()
            loader.input(model_text(self.schema, rows))
            w.m = loader.build_metamodel(xtuml.IntegerGenerator())
            w.ref.load(rows)
            per_kind = dict((k, iter(list(w.m.select_many(k)))) for k in self.schema.kinds())
            for kind, values in rows:
                inst = next(per_kind[w.ref._kind(kind)])
                w.label[inst] = len(w.handles)
                w.handles.append(inst)
                w.vals.append(dict(values))
            rest = hist[1:]
        else:
            w.m = relmodel.build_real(xtuml, self.schema)
        for op in rest:
            self.run_impl(w, op)
            self.run_ref(w, op)
        w.obs = None
        return w

    def run_ref(self, w, op):
        res = c02.CappedModel.run_ref(self, w, op)
        if op[0] == 'new':
            # the fresh id is whatever the generator handed out (after a load it has advanced): take it over
            inst = w.ref.insts[-1]
            if 'Id' in inst.values:
                inst.values['Id'] = w.handles[-1].Id
            w.vals.append(dict(inst.values))
        return res

    def canon(self, w):
        base = c02.CappedModel.canon(self, w)
        ids = [(i.kind, w.vals[i.idx].get('Id') if w.vals[i.idx].get('Id') in (0, None, K1, K2, K3) else 'own')
               for i in w.ref.insts]
        return json.dumps([base, ids], default=repr)

    def enabled(self, w):
        ref = w.ref
        ops = []
        created = {}
        for i in ref.insts:
            created[i.kind] = created.get(i.kind, 0) + 1
        for k in self.schema.kinds():
            if created.get(k, 0) < self.caps.get(k, self.cap):
                ops.append(['new', k])
        live = [i.idx for i in ref.insts if i.alive]
        for x in live:
            for y in live:
                for rel in self.schema.rels():
                    for ph in self.schema.phrases():
                        res = ref.resolve(ref.insts[x].kind, ref.insts[y].kind, rel, ph)
                        if res is None or not res[1]:
                            continue
                        ops.append(['relate', x, y, rel, ph, 'int'])
                        ops.append(['unrelate', x, y, rel, ph, 'int'])
        for x in live:
            ops.append(['delete', x])
        return ops

    def apply(self, ctx, w, op, hist):
        got = self.run_impl(w, op)
        exp = self.run_ref(w, op)
        ctx.count('traces')
        if got != exp:
            ctx.violation('c11:history:outcome', self.case(hist, op), 'shape %s, history %s, then %s: outcome %s, '
                          'expected %s' % (self.schema.name, hist, op, got, exp), exp, got)
            return False
        if got.endswith('Exception'):
            # a rejected call: the model is as before (C02), and so must the counts be -- judged here, because the state
            # merges with the one before the call and is not visited again
            ctx.count('history_rejected_calls_compared')

            def bad(kind, msg, e=None, g=None):
                ctx.violation('c11:after-rejected-call:%s' % kind, self.case(hist, op),
                              'shape %s after the history %s and the rejected call %s: %s' % (self.schema.name, hist, op, msg), e, g)
            compare(ctx, w.m, self.schema, w.ref, reader(self.schema, w.ref, w.vals), bad, light=True)
            return False
        return True

    def probes(self, ctx, w, hist):
        case = self.case(hist, ['probe'])

        def bad(kind, msg, e=None, g=None):
            ctx.violation('c11:%s' % kind, case, 'shape %s after the history %s: %s' % (self.schema.name, hist, msg), e, g)
        ctx.count('history_states_compared')
        if hist and hist[0][0] == 'load' and len(hist) > 1:
            ctx.count('history_states_from_loader_seed')
        read = reader(self.schema, w.ref, w.vals)
        compare(ctx, w.m, self.schema, w.ref, read, bad, light=True)
        # identifier writes through the API: in this link state every live instance in turn gets a null
        # identifier (id 0, None) and the identifier of every other instance of its class (a repetition)
        for kind in self.schema.kinds():
            if 'Id' in self.schema.referentials(kind):
                continue
            pool = list(w.ref.order[kind])
            for x in pool:
                keep = w.vals[x].get('Id')
                others = []
                for y in pool:
                    v = w.vals[y].get('Id')
                    if y != x and v not in others and v != keep:
                        others.append(v)
                for v in [0, None] + others:
                    if v == keep and v is not None:
                        continue
                    w.handles[x].Id = v
                    w.vals[x]['Id'] = v
                    w.ref.insts[x].values['Id'] = v
                    ctx.count('history_identifier_writes')

                    def bad2(k, msg, e=None, g=None, x=x, v=v):
                        ctx.violation('c11:%s' % k, dict(case, op=['probe', 'set', x, v]),
                                      'shape %s after the history %s and instance %d .Id = %r: %s' %
                                      (self.schema.name, hist, x, v, msg), e, g)
                    compare(ctx, w.m, self.schema, w.ref, read, bad2, light=True)
                w.handles[x].Id = keep
                w.vals[x]['Id'] = keep
                w.ref.insts[x].values['Id'] = keep



class LateHistModel(HistModel):
    '''The associations are defined and formalized by an operation of the history ('formalize', enabled once): instances
    created before it hold raw values in what become referential attributes afterwards.  Counts are compared in the
    formalized states only (before, the model has no associations to check).'''

    def __init__(self, schema, caps):
        HistModel.__init__(self, schema, caps, [])

    def case(self, hist, op):
        return dict(family='late', shape=self.schema.name, caps=self.caps, hist=hist, op=op)

    def initial(self):
        return [[]]

    def build(self, hist):
        import xtuml
        w = c02.World()
        w.ref = relmodel.Ref(self.schema)
        w.handles, w.label, w.vals = [], {}, []
        w.formal, w.early = False, []
        w.m = xtuml.MetaModel(xtuml.IntegerGenerator())
        for kind, attrs in self.schema.classes:
            w.m.define_class(kind, list(attrs))
        for kind, name, attrs in self.schema.uniques:
            w.m.define_unique_identifier(kind, name, *attrs)
        for op in hist:
            self.run_impl(w, op)
            self.run_ref(w, op)
        w.obs = None
        return w

    def run_impl(self, w, op):
        if op[0] == 'formalize':
            for a in self.schema.assocs:
                ass = w.m.define_association(a.rel, a.src, list(a.skeys), a.smany, a.scond, a.sphrase,
                                             a.tgt, list(a.tkeys), a.tmany, a.tcond, a.tphrase)
                ass.formalize()
            return 'formalized'
        return HistModel.run_impl(self, w, op)

    def run_ref(self, w, op):
        if op[0] == 'formalize':
            w.formal = True
            return 'formalized'
        res = HistModel.run_ref(self, w, op)
        if op[0] == 'new':
            w.early.append(not w.formal)
        return res

    def observe(self, w):
        if not w.formal:
            w.obs = dict(pool=dict((k, [w.label.get(i, '?') for i in w.m.select_many(k)]) for k in self.schema.kinds()),
                         nav={}, ref={})
            return w.obs
        return HistModel.observe(self, w)

    def canon(self, w):
        return json.dumps([HistModel.canon(self, w), w.formal, w.early])

    def enabled(self, w):
        ops = HistModel.enabled(self, w)
        if w.formal:
            return ops
        return [o for o in ops if o[0] in ('new', 'delete')] + [['formalize']]

    def probes(self, ctx, w, hist):
        if not w.formal:
            return
        if any(w.early):
            ctx.count('late_states_with_instances_older_than_their_associations')
        HistModel.probes(self, ctx, w, hist)


def late_models(ctx):
    '''Shapes in which an identifier covers a referential attribute (so the stale raw value and the value read through the
    link differ in what the identifier check must count), and two plain ones.'''
    from mc.refs.relmodel import Schema
    out = []
    base = dict((s.name, s) for s in schemas.shapes([PAYLOAD]))
    h = base['h_subsuper']
    out.append((h, {'P': 1, 'S1': 2, 'S2': 1} if ctx.quick else {'P': 2, 'S1': 2, 'S2': 1}))
    b = base['b_1_mc']
    out.append((Schema('late_b_ident_over_ref', b.classes, b.assocs, list(b.uniques) + [('B', 'I2', ['A_Id'])]),
                {'A': 2, 'B': 2} if ctx.quick else {'A': 2, 'B': 3}))
    g = base['g_assoc_class']
    out.append((Schema('late_g_ident_over_refs', g.classes, g.assocs, list(g.uniques) + [('C', 'I2', ['A_Id', 'B_Id'])]),
                {'A': 1, 'B': 1, 'C': 2} if ctx.quick else {'A': 2, 'B': 1, 'C': 2}))
    e = base['e_reflexive_1c_1c']
    out.append((Schema('late_e_ident_over_ref', e.classes, e.assocs, list(e.uniques) + [('A', 'I2', ['Next_Id'])]),
                {'A': 2} if ctx.quick else {'A': 3}))
    return [LateHistModel(s, caps) for s, caps in out]


E_CAPS = {
    'a_1c_1c': ({'A': 2, 'B': 2}, {'A': 2, 'B': 2}),
    'b_1_mc': ({'A': 1, 'B': 2}, {'A': 2, 'B': 2}),
    'c_mc_1c_other_side': ({'A': 2, 'B': 1}, {'A': 2, 'B': 2}),
    'd_m_m': ({'A': 2, 'B': 2}, {'A': 2, 'B': 2}),
    'e_reflexive_1c_1c': ({'A': 2}, {'A': 3}),
    'f_reflexive_1_mc': ({'A': 2}, {'A': 3}),
    'g_assoc_class': ({'A': 1, 'B': 1, 'C': 2}, {'A': 2, 'B': 1, 'C': 2}),
    'g2_reflexive_assoc_class': ({'A': 2, 'C': 1}, {'A': 2, 'C': 2}),
    'h_subsuper': ({'P': 1, 'S1': 1, 'S2': 1}, {'P': 2, 'S1': 1, 'S2': 1}),
    'k_1_1': ({'A': 2, 'B': 1}, {'A': 2, 'B': 2}),
}


def e_seeds(name):
    '''Loader-built initial states with over-populated single-valued ends (the relate API refuses to build them).'''
    if name in ('a_1c_1c', 'b_1_mc', 'd_m_m'):
        return [[r('A', Id=K1), r('A', Id=K1), r('B', Id=201, A_Id=K1), r('B', Id=202, A_Id=K1)]]
    if name == 'c_mc_1c_other_side':
        return [[r('B', Id=K1), r('B', Id=K1), r('A', Id=201, B_Id=K1), r('A', Id=202, B_Id=K1)]]
    if name == 'e_reflexive_1c_1c':
        return [[r('A', Id=K1, Next_Id=K2), r('A', Id=K2, Next_Id=K1), r('A', Id=K3, Next_Id=K1)]]
    if name == 'f_reflexive_1_mc':
        return [[r('A', Id=K1, Parent_Id=K1), r('A', Id=K1, Parent_Id=K2)]]
    if name == 'g_assoc_class':
        return [[r('A', Id=K1), r('A', Id=K1), r('B', Id=K2), r('C', Id=301, A_Id=K1, B_Id=K2)]]
    if name == 'g2_reflexive_assoc_class':
        return [[r('A', Id=K1), r('A', Id=K1), r('C', Id=301, One_Id=K1, Other_Id=K1)]]
    if name == 'h_subsuper':
        return [[r('P', Id=K1), r('P', Id=K1), r('S1', Id=K1), r('S2', Id=K1)]]
    return []


def e_models(ctx):
    out = []
    for s in schemas.shapes([PAYLOAD]) + [schemas.by_name('k_1_1', [PAYLOAD])]:
        caps = E_CAPS[s.name][0 if ctx.quick else 1]
        out.append(HistModel(s, caps, e_seeds(s.name)))
    return out



# ---------------------------------------------------------------------------
# F -- sub/super variants of one supertype (same class name and number) one after the other in one process, and
#      subtypes added to a live metamodel between two checks
# ---------------------------------------------------------------------------

F_VARIANTS = [('S1',), ('S1', 'S2'), ('S2', 'S3'), ('S1', 'S2', 'S3')]
F_REL = 4


def f_model(subs):
    import xtuml
    m = xtuml.MetaModel(xtuml.IntegerGenerator())
    m.define_class('P', [('Id', 'unique_id'), ('Z', 'integer')])
    m.define_unique_identifier('P', 1, 'Id')
    for sname in subs:
        f_add_subtype(m, sname)
    return m


def f_add_subtype(m, sname):
    m.define_class(sname, [('Id', 'unique_id'), ('Z', 'integer')])
    m.define_unique_identifier(sname, 1, 'Id')
    m.define_association(F_REL, sname, ['Id'], False, True, '', 'P', ['Id'], False, False, '').formalize()


def f_populate(m, subs, pop):
    '''pop: per supertype instance the index of its subtype in subs (or None).'''
    import xtuml
    for k, which in enumerate(pop):
        p = m.new('P', Id=100 + k)
        if which is not None:
            s = m.new(subs[which], Id=900 + k)
            xtuml.relate(s, p, F_REL)


def f_pops(subs, n):
    out = []
    for k in range(n + 1):
        out += list(itertools.product([None] + list(range(len(subs))), repeat=k))
    return out


def f_check(ctx, case):
    try:
        return _f_check(ctx, case)
    except Exception as e:
        ctx.violation('c11:subtype:variants', dict(case, family='subsuper'),
                      'supertype P with subtypes %s, instances with subtype %r, models checked earlier in the process %r: %s: %s' %
                      (case['subs'], case['pop'], case['pre'], type(e).__name__, e), 'a count', type(e).__name__)
        return False


def _f_check(ctx, case):
    import xtuml
    pre, subs, pop, live = case['pre'], case['subs'], case['pop'], case['live']
    for psubs, ppop in pre:
        pm = f_model(psubs)
        f_populate(pm, psubs, ppop)
        for arg in (F_REL, 'R%d' % F_REL):
            xtuml.check_subtype_integrity(pm, 'P', arg)
    if live:
        # the last subtype joins the live metamodel after a first check
        m = f_model(subs[:-1])
        f_populate(m, subs[:-1], [w if w is not None and w < len(subs) - 1 else None for w in pop])
        xtuml.check_subtype_integrity(m, 'P', F_REL)
        f_add_subtype(m, subs[-1])
        for k, which in enumerate(pop):
            if which == len(subs) - 1:
                s = m.new(subs[-1], Id=900 + k)
                xtuml.relate(s, m.select_any('P', lambda sel: sel.Id == 100 + k), F_REL)
    else:
        m = f_model(subs)
        f_populate(m, subs, pop)
    exp = sum(1 for which in pop if which is None)
    ctx.count('subsuper_variant_checks')
    for arg in (F_REL, 'R%d' % F_REL):
        for kind in ('P', 'p'):
            ctx.count('evaluations')
            try:
                g = xtuml.check_subtype_integrity(m, kind, arg)
            except Exception as e:
                g = 'raised %s: %s' % (type(e).__name__, e)
            ctx.distinct('outcomes', ('subsuper', len(subs), g, bool(live)))
            if g != exp:
                ctx.violation('c11:subtype:variants', dict(case, family='subsuper'),
                              'supertype P with subtypes %s (%s), instances with subtype %r: check_subtype_integrity(m, %r, %r) = %r, '
                              'expected %d; models checked earlier in the process: %r' %
                              (list(subs), 'last one added to the live metamodel after a first check' if live else 'defined at once',
                               list(pop), kind, arg, g, exp, pre), exp, g)
                return False
    if exp:
        ctx.count('subtype_violations_seen')
    return True


def f_run(ctx, task):
    i, j, live = task
    pre_subs = F_VARIANTS[i]
    pre = [[list(pre_subs), [0, None]]] if i != j or not live else []
    subs = F_VARIANTS[j]
    for pop in f_pops(subs, 2 if ctx.quick else 3):
        if live and len(subs) < 2:
            continue
        f_check(ctx, dict(pre=pre if i != j else [], subs=list(subs), pop=list(pop), live=live))
    return None

# ---------------------------------------------------------------------------
# driver
# ---------------------------------------------------------------------------

def dispatch(ctx, task):
    return {'A': a_run, 'B': b_run, 'C': c_run, 'D': d_run, 'P': p_run}[task[0]](ctx, task)


def run(ctx):
    ooa_schema()
    # stages, cheapest first; a stage that reports violations ends the run (the remaining stages would only repeat them)
    stages = [('command lines (C, D, P)', c_tasks(ctx.tier) + d_tasks(ctx.tier) + p_tasks(ctx.tier), 1),
              ('identifier sets (B)', b_tasks(ctx.tier), 4),
              ('association shapes (A)', a_tasks(ctx.tier), 2)]
    tasks = []
    for label, ts, chunk in stages:
        # spread the expensive tasks over the workers; the seed only rotates the order
        ts = explorer.rotate(ts, ctx.seed * 7919)
        order = sorted(range(len(ts)), key=lambda i: (i * 2654435761) % 1000003)
        ts = [ts[i] for i in order]
        tasks.extend(ts)
        ctx.pmap(dispatch, ts, chunk=chunk)
        print('  %-24s tasks=%d models=%d cli=%d bpcli=%d processes=%d outcomes=%d/%d/%d t=%.0fs' %
              (label, len(ts), ctx.n('models'), ctx.n('cli_runs'), ctx.n('bp_cli_runs'), ctx.n('proc_runs'), ctx.nd('outcomes'),
               ctx.nd('cli_outcomes'), ctx.nd('bp_outcomes'), ctx.elapsed()), flush=True)
        if ctx.violations:
            print('  violations reported; remaining stages skipped', flush=True)
            return
    ctx.count('models_enumerated', ctx.n('models'))
    # sub/super variants: each ordered pair of variants in a process of its own
    ctx.pmap(f_run, [(i, j, live) for i in range(len(F_VARIANTS)) for j in range(len(F_VARIANTS)) for live in (False, True)], fresh=True)
    ctx.require(ctx.n('subsuper_variant_checks') >= 200, 'too few sub/super variant checks (%d)' % ctx.n('subsuper_variant_checks'))
    if ctx.violations:
        return
    total = 0
    for m in explorer.rotate(e_models(ctx), ctx.seed):
        res = explorer.bfs(ctx, m, chunk=8, label=m.schema.name)
        total += res['states']
        print('  %-28s caps=%s states=%d depth=%d closed=%s t=%.0fs' %
              (m.schema.name, m.caps, res['states'], res['depth'], res['closed'], ctx.elapsed()), flush=True)
        if ctx.violations:
            print('  violations reported; remaining shapes skipped', flush=True)
            return
    for m in late_models(ctx):
        res = explorer.bfs(ctx, m, chunk=8, label=m.schema.name)
        total += res['states']
        print('  %-28s caps=%s states=%d depth=%d closed=%s t=%.0fs' %
              (m.schema.name, m.caps, res['states'], res['depth'], res['closed'], ctx.elapsed()), flush=True)
        if ctx.violations:
            print('  violations reported; remaining shapes skipped', flush=True)
            return
    ctx.require(ctx.n('late_states_with_instances_older_than_their_associations') >= 100,
                'too few states whose instances are older than their associations (%d)' %
                ctx.n('late_states_with_instances_older_than_their_associations'))
    for t in (tasks[0], tasks[len(tasks) // 2], tasks[-1]):
        ctx.sample(dict(task=t))
    ctx.sample(dict(composite_scenarios=[len(s) for s in C_SCENARIOS], options='all subsets of -r %s x -k %s' % (C_RELS, C_KINDS)))
    q = ctx.quick
    ctx.require(ctx.n('models_enumerated') >= (100000 if q else 1000000), 'too few models (%d)' % ctx.n('models_enumerated'))
    ctx.require(total >= 300, 'too few history states (%d)' % total)
    for key, least in (('models_with_underpopulated_end', 10000), ('models_with_overpopulated_end', 5000),
                       ('models_with_null_identifier', 10000), ('models_with_repeated_identifier', 10000),
                       ('models_with_both_kinds', 5000), ('models_consistent', 1000),
                       ('models_where_counting_rules_differ', 100), ('subtype_violations_seen', 100),
                       ('history_states_from_loader_seed', 50),
                       ('cli_runs_with_violations', 500), ('cli_runs_clean', 20), ('cli_runs_restricted_to_clean_part', 20),
                       ('bp_runs_with_violations', 100), ('bp_runs_clean', 10),
                       ('proc_runs', 15), ('proc_runs_clean', 3), ('proc_runs_with_violations', 10),
                       ('proc_runs_with_a_multiple_of_256_violations', 8), ('proc_runs_restricted_to_a_multiple_of_256_violations', 3)):
        ctx.require(ctx.n(key) >= least, 'vacuity: %s = %d (< %d)' % (key, ctx.n(key), least))
    ctx.require(ctx.nd('outcomes') >= 100, 'too few distinct outcomes (%d)' % ctx.nd('outcomes'))
    ctx.require(ctx.nd('cli_outcomes') >= 6 and ctx.nd('bp_outcomes') >= 5, 'too few distinct command-line outcomes')


def replay(ctx, case):
    fam = case['family']
    if fam == 'hist':
        schema = schemas.by_name(case['shape'], [PAYLOAD])
        m = HistModel(schema, case['caps'], e_seeds(schema.name))
        explorer.replay_case(ctx, m, case['hist'], case.get('op'))
    elif fam == 'late':
        m = [x for x in late_models(ctx) if x.schema.name == case['shape']][0]
        m.caps = case['caps']
        explorer.replay_case(ctx, m, case['hist'], case.get('op'))
    elif fam == 'subsuper':
        f_check(ctx, case)
    elif fam == 'cli':
        cli_check(ctx, schema_from_json(case['schema']), case['rows'], case['rels'], case['kinds'], case['split'])
    elif fam == 'bp':
        bp_check(ctx, case['rows'], case['rels'], case['kinds'], case['globals'])
    elif fam == 'proc':
        p_check(ctx, case['tool'], case['spec'], case['rels'], case['kinds'])
    else:
        evaluate(ctx, schema_from_json(case['schema']), case['rows'], fam, positional=case.get('positional', False))


def coverage(ctx):
    closed = all(v.get('closed') for v in ctx.notes.values() if isinstance(v, dict))
    return dict(
        states=ctx.nd('inputs') + ctx.n('states'),
        transitions=ctx.n('models') + ctx.n('cli_runs') + ctx.n('bp_cli_runs') + ctx.n('transitions'),
        traces_validated_against_impl=ctx.n('evaluations'),
        evaluations=ctx.n('evaluations'),
        distinct_nontrivial=ctx.n('models_with_violation'),
        distinct_outcomes=ctx.nd('outcomes'),
        rule='distinct_nontrivial = enumerated models and history states holding at least one violation (association end '
             'outside its range, null identifying value or repeated identifier); by kind: see models_with_*',
        models=ctx.n('models'), models_loaded_from_text=ctx.n('models_enumerated'),
        distinct_inputs=ctx.nd('inputs'),
        history_states=ctx.n('states'), history_states_compared=ctx.n('history_states_compared'),
        history_states_from_loader_seed=ctx.n('history_states_from_loader_seed'),
        models_with_underpopulated_end=ctx.n('models_with_underpopulated_end'),
        models_with_overpopulated_end=ctx.n('models_with_overpopulated_end'),
        models_with_null_identifier=ctx.n('models_with_null_identifier'),
        models_with_repeated_identifier=ctx.n('models_with_repeated_identifier'),
        models_with_both_kinds=ctx.n('models_with_both_kinds'),
        models_consistent=ctx.n('models_consistent'),
        models_where_counting_rules_differ=ctx.n('models_where_counting_rules_differ'),
        models_with_several_accepted_counts=ctx.n('models_with_several_accepted_counts'),
        subtype_violations_seen=ctx.n('subtype_violations_seen'),
        subsuper_variant_checks=ctx.n('subsuper_variant_checks'),
        cli_runs=ctx.n('cli_runs'), cli_runs_with_violations=ctx.n('cli_runs_with_violations'),
        cli_runs_clean=ctx.n('cli_runs_clean'), cli_runs_restricted_to_clean_part=ctx.n('cli_runs_restricted_to_clean_part'),
        bp_cli_runs=ctx.n('bp_cli_runs'), bp_runs_with_violations=ctx.n('bp_runs_with_violations'),
        bp_runs_clean=ctx.n('bp_runs_clean'),
        tool_processes=dict(runs=ctx.n('proc_runs'), with_violations=ctx.n('proc_runs_with_violations'), clean=ctx.n('proc_runs_clean'),
                            with_a_multiple_of_256_violations=ctx.n('proc_runs_with_a_multiple_of_256_violations'),
                            of_which_through_r_or_k=ctx.n('proc_runs_restricted_to_a_multiple_of_256_violations'),
                            violation_counts=P_COUNTS[ctx.tier], distinct_outcomes=ctx.nd('proc_outcomes')),
        distinct_cli_outcomes=ctx.nd('cli_outcomes') + ctx.nd('bp_outcomes'),
        per_shape_history=dict((k, v) for k, v in ctx.notes.items() if isinstance(v, dict)),
        bounds=dict(association_shapes=dict((k, dict(max_instances=v[0], referred_keys=v[1], own_id_duplicates=v[2]))
                                            for k, v in A_BOUNDS[ctx.tier].items()),
                    type_spellings=SPELLINGS, null_forms=['id 0 (positional INSERT)', 'absent column (named INSERT)'],
                    type_spelling_deviations='upper / mixed case: every class <= 2 and at most 3 instances in all (quick); '
                                             'the quick bounds of the default spelling (thorough)',
                    referential_palette=['null', 'k1', 'k2', 'dangling'],
                    identifier_sets=len(B_IDSETS), identifier_types=B_TYPES, identifier_values=B_VALUES,
                    identifier_instances=B_MAXN[ctx.tier], identifier_type_spellings=B_SPELL,
                    composite_scenarios=[2 if ctx.quick else len(s) for s in C_SCENARIOS],
                    cli_options='every subset of -r %s x every subset of -k %s' % (C_RELS, C_KINDS),
                    bridgepoint_models=len(d_models(ctx.tier)), bridgepoint_option_sets=len(D_OPTS[ctx.tier]),
                    history_caps=dict((k, v[0 if ctx.quick else 1]) for k, v in E_CAPS.items())),
        exhaustive=bool(closed) and not ctx.caps_hit,
    )
