'''
C17 -- ordered sets behave as insertion-ordered mathematical sets.

E1 search to closure over a small element universe, for xtuml.OrderedSet and
xtuml.QuerySet.  Reference: a duplicate-free python list.
'''
import itertools


def lst(it, limit=64):
    '''list() that cannot run away on a corrupted (cyclic) structure.'''
    return list(itertools.islice(iter(it), limit))

from mc import core, explorer

NEEDS_BRIDGEPOINT = False
ASSUMPTIONS = [
    'element universe of 3 (quick) / 5 (thorough) hashable values; operands range over every ordered subset; the search is run for '
    'a seed-chosen palette, for a palette of falsy values including None and for a palette of elements (tuples, a string, a big integer, '
    'a real) every use of which is a fresh equal copy (nothing may depend on the identity of an element)',
    'order is claimed for add, |=, construction, removals (survivors keep their order); & | - ^ results are compared as sets',
    'equality with unordered sets, with lists holding duplicates and with non-iterables is outside the statement',
    'in-place operands also include lists/generators yielding an element more than once (a mathematical operand holds it once) and '
    'operands that fail part-way (an unhashable element, a raising generator): how much of those is taken in is left open, the '
    'set must remain a consistent ordered set within the bounds given in the code',
]

PALETTES = [
    [0, 1, 2, 3, 4],
    ['a', 'b', 'c', 'd', 'e'],
    [(0,), (1,), (2,), (3,), (4,)],
    [-1, 10 ** 20, 'x', 2.5, ('t', 1)],
]
# elements that are falsy or None (None is also what an empty query set answers for first / last): always explored, whatever the seed
FALSY_PALETTE = [None, 0, '', (), 0.5]
OUTSIDE = 'zz-not-a-member'
# (round 12, C17-23) elements of which equal but not identical copies can be made: with this palette every use of an element -- as
# argument, inside an operand -- is a fresh copy, so nothing may depend on the identity of an element
TWIN_PALETTE = [(0,), 'ab', 10 ** 20, 2.5, ('t', 1)]


def twin(v):
    if isinstance(v, tuple) and v:
        return tuple(list(v))
    if isinstance(v, str) and len(v) > 1:
        return ''.join(list(v))
    if isinstance(v, int) and not isinstance(v, bool) and abs(v) > 10 ** 6:
        return int(str(v))
    if isinstance(v, float):
        return float(repr(v))
    return v


def ordered_subsets(universe):
    out = []
    for n in range(len(universe) + 1):
        for p in itertools.permutations(range(len(universe)), n):
            out.append(list(p))
    return out


class World(object):
    pass


class SetModel(explorer.Model):
    limit_s = 5.0

    def __init__(self, clsname, usize, seed, palette=None):
        self.clsname = clsname
        self.universe = (palette or PALETTES[seed % len(PALETTES)])[:usize]
        self.twins = palette is TWIN_PALETTE
        self.idx = list(range(usize))
        self.operands = ordered_subsets(self.universe)

    # -- helpers -------------------------------------------------------
    def cls(self, name=None):
        import xtuml
        return getattr(xtuml, name or self.clsname)

    def val(self, i):
        if self.universe is TWIN_PALETTE or getattr(self, 'twins', False):
            return twin(self.universe[i])
        return self.universe[i]

    def raw_operand(self, kind, elems):
        '''The values the operand yields when iterated, duplicates included.'''
        vals = [self.val(i) for i in elems]
        if kind == 'duplist':
            return vals + vals
        if kind == 'dupgen':
            return vals + vals[::-1]
        return vals

    def mk_operand(self, kind, elems, world=None):
        vals = [self.val(i) for i in elems]
        if kind == 'duplist':
            return self.raw_operand(kind, elems)
        if kind == 'dupgen':
            return (v for v in self.raw_operand(kind, elems))
        if kind == 'unhashable':
            # hashable values, then a value no set can hold, then one more hashable value
            return vals + [[]] + [OUTSIDE]
        if kind == 'raising':
            def gen():
                for v in vals:
                    yield v
                raise RuntimeError('operand failed')
            return gen()
        if kind == 'oset':
            return self.cls('OrderedSet')(vals)
        if kind == 'qset':
            return self.cls('QuerySet')(vals)
        if kind == 'list':
            return list(vals)
        if kind == 'tuple':
            return tuple(vals)
        if kind == 'gen':
            return (v for v in vals)
        if kind == 'set':
            return set(vals)
        if kind == 'fset':
            return frozenset(vals)
        if kind == 'self':
            return world.s
        raise ValueError(kind)

    def initial(self):
        return [[]] + [[['ctor', k, e]] for k in ('list', 'oset', 'gen') for e in self.operands]

    def build(self, hist):
        w = World()
        w.s = self.cls()()
        w.r = []
        for op in hist:
            self._do(None, w, op, hist, check=False)
        return w

    def case(self, hist, op):
        return dict(cls=self.clsname, universe=list(map(repr, self.universe)), hist=hist, op=op)

    def canon(self, w):
        s = w.s
        proxy = None
        try:
            fwd, cur = [], s.end[2]
            while cur is not s.end and len(fwd) < 50:
                fwd.append(cur[0]); cur = cur[2]
            bwd, cur = [], s.end[1]
            while cur is not s.end and len(bwd) < 50:
                bwd.append(cur[0]); cur = cur[1]
            proxy = (tuple(map(repr, fwd)), tuple(map(repr, bwd)), tuple(sorted(map(repr, s.map))))
        except Exception:
            proxy = ('no-proxy', tuple(map(repr, s)))
        return (tuple(map(repr, w.r)), proxy)

    def enabled(self, w):
        ops = []
        for i in self.idx:
            ops += [['add', i], ['discard', i], ['remove', i]]
        ops += [['pop', True], ['pop', False], ['pop', None], ['clear']]
        for name in ('ior', 'iand', 'isub', 'ixor'):
            ops.append(['iop', name, 'self', []])
            for kind in ('oset', 'qset', 'list', 'tuple', 'gen', 'duplist', 'dupgen'):
                # ("s &= generator": the operand is taken in as a whole before members are compared with it, as for every
                #  other operator -- included since round 9, C17-17)
                for e in self.operands:
                    if kind in ('duplist', 'dupgen') and not e:
                        continue
                    ops.append(['iop', name, kind, e])
            # operands that fail part-way: whatever was taken in before, the set must stay a consistent ordered set
            for kind in ('unhashable', 'raising'):
                if kind == 'raising' and name == 'iand':
                    continue
                for e in self.operands:
                    ops.append(['ifail', name, kind, e])
        n = len(w.r)
        for direction in ('fwd', 'rev'):
            for k in range(1, n + 1):
                for pos in itertools.combinations(range(n), k):
                    ops.append(['iterdel', direction, list(pos)])
        return ops

    # -- transitions ----------------------------------------------------
    def apply(self, ctx, w, op, hist):
        return self._do(ctx, w, op, hist, check=True)

    def _do(self, ctx, w, op, hist, check):
        s, r = w.s, w.r
        name = op[0]
        before = list(r)
        exp_exc = None
        exp_ret = ('any',)
        relaxed = False
        failing = None
        got_exc = None
        ret = None
        try:
            if name == 'ctor':
                w.s = s = self.cls()(self.mk_operand(op[1], op[2]))
                w.r = r = []
                for i in op[2]:
                    r.append(self.val(i))
            elif name == 'add':
                v = self.val(op[1])
                if v not in r:
                    r.append(v)
                ret = s.add(v)
            elif name == 'discard':
                v = self.val(op[1])
                if v in r:
                    r.remove(v)
                ret = s.discard(v)
            elif name == 'remove':
                v = self.val(op[1])
                if v in r:
                    r.remove(v)
                else:
                    exp_exc = 'KeyError'
                ret = s.remove(v)
            elif name == 'pop':
                if not r:
                    exp_exc = 'KeyError'
                else:
                    exp_ret = ('val', r.pop(-1 if op[1] in (True, None) else 0))
                ret = s.pop() if op[1] is None else s.pop(last=op[1])
            elif name == 'clear':
                del r[:]
                ret = s.clear()
            elif name == 'iop':
                _, iname, kind, elems = op
                raw = list(r) if kind == 'self' else self.raw_operand(kind, elems)
                other_vals = []
                for v in raw:
                    if v not in other_vals:
                        other_vals.append(v)
                other = self.mk_operand(kind, elems, w)
                if iname == 'ior':
                    for v in other_vals:
                        if v not in r:
                            r.append(v)
                    s |= other
                elif iname == 'iand':
                    r[:] = [v for v in r if v in other_vals]
                    s &= other
                elif iname == 'isub':
                    r[:] = [v for v in r if v not in other_vals]
                    s -= other
                elif iname == 'ixor':
                    keep = [v for v in r if v not in other_vals]
                    new = [v for v in other_vals if v not in r]
                    r[:] = keep + new
                    relaxed = (keep, new)
                    s ^= other
                exp_ret = ('is', w.s)
                ret = s
                # the operand must be left alone and must not be adopted: changing s later must not change it
                if kind in ('oset', 'qset', 'list', 'duplist'):
                    w.operand_after = (lst(other), raw, other)
            elif name == 'ifail':
                _, iname, kind, elems = op
                failing = ([self.val(i) for i in elems], iname)
                other = self.mk_operand(kind, elems, w)
                if iname == 'ior':
                    s |= other
                elif iname == 'iand':
                    s &= other
                elif iname == 'isub':
                    s -= other
                elif iname == 'ixor':
                    s ^= other
            elif name == 'iterdel':
                _, direction, pos = op
                order = list(r) if direction == 'fwd' else list(reversed(r))
                visited = []
                it = iter(s) if direction == 'fwd' else reversed(s)
                for i, v in enumerate(it):
                    visited.append(v)
                    if i in pos:
                        s.discard(v)
                    if len(visited) > 20:
                        break
                removed = [order[i] for i in pos]
                r[:] = [v for v in r if v not in removed]
                exp_ret = ('val', order)
                ret = visited
            else:
                raise ValueError(op)
        except KeyError as e:
            got_exc = 'KeyError'
        except Exception as e:  # any other exception is an observation too
            got_exc = type(e).__name__

        if not check:
            if relaxed or failing:
                # adopt the implementation's order for the part the statement leaves open
                w.r[:] = lst(w.s)
            return True

        case = dict(cls=self.clsname, universe=list(map(repr, self.universe)), hist=hist, op=op)
        ok = True

        def bad(kind, msg, expected=None, observed=None):
            ctx.violation('c17:%s:%s' % (op[1] if name in ('iop', 'ifail') else name, kind), case,
                          '%s after %s on %s: %s' % (self.clsname, op, before, msg),
                          expected, observed, unit_test=unit_test(self, hist, op))

        if failing:
            # The statement does not say how much of a failing operand is taken in; it does say the result is a set whose
            # iteration, reverse iteration, length, membership, first and last agree.  Bounds: survivors keep their order,
            # nothing outside the operand's values is added or removed, |= removes nothing, -= and &= add nothing.
            vals, iname = failing
            obs = lst(w.s)
            ctx.distinct('outcomes', ('ifail', iname, op[2], got_exc, len(obs) - len(before)))
            survivors = [v for v in before if v in obs]
            added = [v for v in obs if v not in before]
            removed = [v for v in before if v not in obs]
            msg = None
            if [v for v in obs if v in before] != survivors or len(set(map(repr, obs))) != len(obs):
                msg = 'survivors are reordered or repeated'
            elif any(v not in vals for v in added) or (iname in ('isub', 'iand') and added):
                msg = 'elements %r appeared' % (added,)
            elif (iname == 'ior' and removed) or (iname in ('isub', 'ixor') and any(v not in vals for v in removed)) or \
                    (iname == 'iand' and any(v in vals for v in removed)):
                msg = 'elements %r disappeared' % (removed,)
            elif iname == 'ior' and added != [v for v in vals if v in added]:
                msg = 'new elements %r are not in the order of the operand' % (added,)
            if msg:
                bad('failing-operand', 'with an operand failing after %r (%s): %s; iterates as %r' % (vals, got_exc, msg, obs),
                    repr(before), repr(obs))
                return False
            r[:] = obs
            ctx.count('traces')
            return self.check_state(ctx, w, case, bad)
        if exp_exc != got_exc:
            bad('exception', 'expected %s, got %s' % (exp_exc or 'no exception', got_exc or 'no exception'),
                exp_exc, got_exc)
            return False
        if exp_exc:
            # a rejected call leaves the set as it was
            r[:] = before
        ctx.distinct('outcomes', (name, op[1] if name == 'iop' else None, got_exc, repr(ret) if name in ('pop', 'iterdel') else None))
        if exp_ret[0] == 'val' and not got_exc and ret != exp_ret[1]:
            bad('result', 'returned %r, expected %r' % (ret, exp_ret[1]), repr(exp_ret[1]), repr(ret))
            ok = False
        if exp_ret[0] == 'is' and not got_exc and ret is not exp_ret[1]:
            bad('identity', 'in-place operator returned a different object')
            ok = False

        obs = lst(w.s)
        if relaxed and not got_exc:
            keep, new = relaxed
            if sorted(map(repr, obs)) != sorted(map(repr, r)) or len(obs) != len(r) or \
               [v for v in obs if v in keep] != keep:
                bad('content', 'content %r, expected survivors %r in order plus %r' % (obs, keep, new),
                    repr(r), repr(obs))
                return False
            r[:] = obs
        elif obs != r:
            kind = 'content' if sorted(map(repr, obs)) != sorted(map(repr, r)) else 'order'
            bad(kind, 'iterates as %r, expected %r' % (obs, r), repr(r), repr(obs))
            return False
        oa = getattr(w, 'operand_after', None)
        if oa is not None and not got_exc and name == 'iop':
            w.operand_after = None
            if oa[0] != oa[1]:
                bad('operand-changed', 'the right operand %r was changed to %r' % (oa[1], oa[0]), repr(oa[1]), repr(oa[0]))
                return False
            w.s.add(OUTSIDE)
            changed = lst(oa[2]) != oa[1]
            w.s.discard(OUTSIDE)
            if changed:
                bad('operand-aliased', 'adding to the set after %s changed the right operand' % (op[1],))
                return False
        ctx.count('traces')
        if not self.check_state(ctx, w, case, bad):
            return False
        return ok

    # -- state invariant (after every transition and in every state) ------
    def check_state(self, ctx, w, case, bad):
        s, r = w.s, w.r
        rev = lst(reversed(s))
        if rev != r[::-1]:
            bad('reversed', 'reversed() gives %r, list() gives %r' % (rev, lst(s)), repr(r[::-1]), repr(rev))
            return False
        if len(s) != len(r):
            bad('len', 'len() is %d, %d elements' % (len(s), len(r)), len(r), len(s))
            return False
        for v in self.universe + [OUTSIDE]:
            if (v in s) != (v in r):
                bad('membership', '%r in s is %r' % (v, v in s), v in r, v in s)
                return False
        if bool(s) != bool(r):
            bad('bool', 'truth value %r' % bool(s))
            return False
        if self.clsname == 'QuerySet':
            f, l = s.first, s.last
            ef, el = (r[0], r[-1]) if r else (None, None)
            if f != ef or l != el:
                bad('firstlast', 'first/last = %r/%r, expected %r/%r' % (f, l, ef, el), repr((ef, el)), repr((f, l)))
                return False
        return True

    def probes(self, ctx, w, hist):
        s, r = w.s, w.r
        case0 = dict(cls=self.clsname, universe=list(map(repr, self.universe)), hist=hist)

        def mkbad(op):
            case = dict(case0, op=op)

            def bad(kind, msg, expected=None, observed=None):
                ctx.violation('c17:%s:%s' % (op[1] if op[0] == 'probe' else op[0], kind), case,
                              '%s %s in state %s: %s' % (self.clsname, op, r, msg), expected, observed,
                              unit_test=unit_test(self, hist, op))
            return bad

        self.check_state(ctx, w, case0, mkbad(['state']))
        rs = set(r)
        for kind in ('oset', 'qset', 'list', 'tuple', 'gen', 'set', 'fset'):
            for e in self.operands:
                if kind in ('set', 'fset') and e != sorted(e):
                    continue        # an unordered operand: one per subset
                self.probe(ctx, w, ['probe', 'all', kind, e], mkbad)
        # repr round trip
        rep = repr(s)
        exp = '%s()' % self.clsname if not r else '%s(%r)' % (self.clsname, r)
        ctx.count('probes')
        if rep != exp:
            mkbad(['probe', 'repr'])('repr', 'repr is %s' % rep, exp, rep)

    def probe(self, ctx, w, op, mkbad):
        '''All read-only binary operations of state w against one operand.'''
        s, r = w.s, w.r
        _, which, kind, elems = op
        bad = mkbad(op)
        ovals = [self.val(i) for i in elems]
        rs, os_ = set(r), set(ovals)
        snapshot = list(r)

        def operand():
            return self.mk_operand(kind, elems)

        checks = []
        # equality: equal exactly to ordered collections with the same elements in the same order
        checks.append(('eq', lambda: s == operand(), r == ovals))
        checks.append(('ne', lambda: s != operand(), r != ovals))
        checks.append(('req', lambda: operand() == s, r == ovals))
        checks.append(('rne', lambda: operand() != s, r != ovals))
        checks.append(('isdisjoint', lambda: s.isdisjoint(operand()), not (rs & os_)))
        if kind in ('oset', 'qset'):
            checks.append(('le', lambda: s <= operand(), rs <= os_))
            checks.append(('lt', lambda: s < operand(), rs < os_))
            checks.append(('ge', lambda: s >= operand(), rs >= os_))
            checks.append(('gt', lambda: s > operand(), rs > os_))
        if kind in ('gen', 'set', 'fset'):
            checks = []        # one-shot iterators and unordered sets are operands of the algebra below only
        for nm, fn, exp in checks:
            ctx.count('probes')
            try:
                got = fn()
            except Exception as e:
                got = 'raised ' + type(e).__name__
            ctx.distinct('outcomes', (nm, got))
            if got is not exp and got != exp or isinstance(got, str):
                bad(nm, '%s against %s %r gives %r, expected %r' % (nm, kind, ovals, got, exp), exp, got)
        algebra = [('or', lambda: s | operand(), rs | os_),
                   ('and', lambda: s & operand(), rs & os_),
                   ('sub', lambda: s - operand(), rs - os_),
                   ('xor', lambda: s ^ operand(), rs ^ os_)]
        if kind in ('list', 'tuple', 'set', 'fset'):
            # the set as RIGHT operand of a plain collection (reflected operators; for built-in sets python tries the left
            # operand's own operator first, which either answers with a built-in set or defers)
            algebra += [('ror', lambda: operand() | s, os_ | rs),
                        ('rand', lambda: operand() & s, os_ & rs),
                        ('rsub', lambda: operand() - s, os_ - rs),
                        ('rxor', lambda: operand() ^ s, os_ ^ rs)]
        for nm, fn, exp in algebra:
            ctx.count('probes')
            try:
                res = fn()
                got = lst(res)
                rev = lst(reversed(res))
                ln = len(res)
            except Exception as e:
                bad(nm, '%s with %s %r raised %s' % (nm, kind, ovals, type(e).__name__), None, type(e).__name__)
                continue
            ctx.distinct('outcomes', (nm, tuple(map(repr, got))))
            # the result is a set of its own: changing it must not change the operands
            if res is s:
                bad(nm + '-aliased', '%s with %s %r returned the left operand itself' % (nm, kind, ovals))
                continue
            try:
                res.add(OUTSIDE)
                res.discard(got[0] if got else OUTSIDE)
            except Exception:
                pass
            if lst(s) != snapshot:
                bad(nm + '-aliased', 'changing the result of %s with %s %r changed the left operand to %r' % (nm, kind, ovals, lst(s)),
                    repr(snapshot), repr(lst(s)))
                s.clear()
                s |= snapshot
                continue
            if self.clsname == 'QuerySet':
                # the result of query-set algebra is a query set: first and last agree with its content
                try:
                    fl = (res.first, res.last)
                except Exception as e:
                    fl = 'raised ' + type(e).__name__
                rest = lst(res)
                want = (rest[0], rest[-1]) if rest else (None, None)
                if fl != want:
                    bad(nm + '-firstlast', 'result of %s with %s %r (a %s) has first/last %r, its content is %r' %
                        (nm, kind, ovals, type(res).__name__, fl, rest), repr(want), repr(fl))
                    continue
            if set(got) != exp or len(got) != len(exp) or ln != len(exp):
                bad(nm, '%s with %s %r gives %r, expected the elements %r' % (nm, kind, ovals, got, sorted(exp, key=repr)),
                    sorted(map(repr, exp)), list(map(repr, got)))
            elif rev != got[::-1]:
                bad(nm + '-reversed', 'result of %s iterates %r but reversed %r' % (nm, got, rev))
        if lst(s) != snapshot:
            bad('mutated', 'read-only operations changed the set to %r' % lst(s), repr(snapshot), repr(lst(s)))


def unit_test(model, hist, op):
    lines = ['import xtuml',
             'U = %r' % (model.universe,),
             's = xtuml.%s()' % model.clsname,
             '# history (indices into U): %r' % (hist,),
             '# failing operation: %r' % (op,),
             '# re-run with: ./check C17 --replay <this file>']
    return '\n'.join(lines)


def models(ctx):
    usize = 3 if ctx.quick else 5
    ms = [SetModel('OrderedSet', usize, ctx.seed), SetModel('QuerySet', usize, ctx.seed),
          SetModel('OrderedSet', usize, ctx.seed, FALSY_PALETTE), SetModel('QuerySet', usize, ctx.seed, FALSY_PALETTE),
          SetModel('OrderedSet', usize, ctx.seed, TWIN_PALETTE), SetModel('QuerySet', usize, ctx.seed, TWIN_PALETTE)]
    for m in ms:
        m.limit_s = 5.0 if ctx.quick else 40.0
    return ms


def run(ctx):
    total_states = 0
    for m in models(ctx):
        res = explorer.bfs(ctx, m, chunk=2, label=m.clsname + ('' if m.universe[0] is not None else '/falsy'))
        total_states += res['states']
        ctx.notes[m.clsname + ('' if m.universe[0] is not None else '_falsy') + '_closed'] = res['closed']
        if res['seen']:
            ctx.sample(dict(cls=m.clsname, state_history=sorted(res['seen'].values(), key=lambda h: (len(h), repr(h)))[-1]))
    cases = [dict(family='large', cls=c, n=n, build=b) for c in ('OrderedSet', 'QuerySet') for n in LARGE_SIZES[ctx.tier]
             for b in LARGE_BUILDS]
    ctx.pmap(large_task, [[c] for c in cases], chunk=1)
    ctx.require(ctx.n('large_comparisons') >= 100, 'too few comparisons on large sets (%d)' % ctx.n('large_comparisons'))
    n_expected = len(ordered_subsets(list(range(3 if ctx.quick else 5))))
    ctx.require(total_states >= 2 * n_expected, 'fewer states than ordered subsets (%d < %d)' % (total_states, 2 * n_expected))
    ctx.require(ctx.nd('outcomes') >= 40, 'too few distinct outcomes (%d)' % ctx.nd('outcomes'))
    ctx.require(ctx.n('traces') > 1000, 'too few validated transitions')


# ---------------------------------------------------------------------------
# large sets (round 9, C17-18): the same comparisons on sets whose sizes lie around 256 and well above -- lengths and
# elements that are no longer small interned integers
# ---------------------------------------------------------------------------
LARGE_SIZES = {'quick': [0, 1, 2, 255, 256, 257, 258, 1000], 'thorough': [0, 1, 2, 255, 256, 257, 258, 1000, 5000, 70000]}
LARGE_BUILDS = ['add', 'ior-list', 'constructor']


def large_case(ctx, case):
    import xtuml
    cls = getattr(xtuml, case['cls'])
    n, build = case['n'], case['build']
    ref = [i * 3 + 1 for i in range(n)]            # distinct int objects above the small-integer cache for i >= 86

    def bad(kind, msg, exp=None, got=None):
        ctx.violation('c17:large:%s' % kind, case, '%s of %d elements built by %s: %s' % (case['cls'], n, build, msg), exp, got)
        return False
    if build == 'add':
        s = cls()
        for v in ref:
            s.add(v)
    elif build == 'ior-list':
        s = cls()
        s |= list(ref)
    else:
        s = cls(list(ref))
    steps = [('built', None)]
    if n >= 2:
        steps += [('pop-last', None), ('pop-first', None), ('discard-middle', None), ('re-add', None)]
    for step, _ in steps:
        if step == 'pop-last':
            v = s.pop()
            if v != ref[-1]:
                return bad('pop', 'pop() returned %r, expected %r' % (v, ref[-1]), ref[-1], v)
            ref.pop()
        elif step == 'pop-first':
            v = s.pop(last=False)
            if v != ref[0]:
                return bad('pop', 'pop(last=False) returned %r, expected %r' % (v, ref[0]), ref[0], v)
            ref.pop(0)
        elif step == 'discard-middle' and ref:
            v = ref[len(ref) // 2]
            s.discard(v)
            ref.remove(v)
        elif step == 're-add' and ref:
            s.add(ref[0])              # already present: no change
            s.add(-5)
            ref.append(-5)
        ctx.count('probes')
        ctx.count('large_comparisons')
        same = [('list', list(ref)), ('tuple', tuple(ref)), ('OrderedSet', xtuml.OrderedSet(list(ref))),
                ('QuerySet', xtuml.QuerySet(list(ref))), ('itself', s)]
        for name, other in same:
            if not (s == other) or (s != other):
                return bad('eq', 'after %s it does not compare equal to %s holding the same elements in the same order '
                           '(== %r, != %r)' % (step, name if name == 'itself' else 'a ' + name, s == other, s != other), True, False)
        differ = []
        if len(ref) > 1:
            differ += [('the reversed list', list(ref[::-1])), ('the list without its last element', list(ref[:-1])),
                       ('the list with two neighbours exchanged', list(ref[:-2]) + [ref[-1], ref[-2]])]
        differ += [('the list with one more element', list(ref) + [-9])]
        for name, other in differ:
            if (s == other) or not (s != other):
                return bad('ne', 'after %s it compares equal to %s' % (step, name), False, True)
        if len(s) != len(ref) or list(s) != ref or list(reversed(s)) != ref[::-1]:
            return bad('content', 'after %s: length %d, expected %d; iteration %s the reference' %
                       (step, len(s), len(ref), 'equals' if list(s) == ref else 'differs from'), len(ref), len(s))
        has_ends = case['cls'] == 'QuerySet'              # first / last are properties of query sets
        if ref and ((has_ends and (s.first != ref[0] or s.last != ref[-1])) or ref[len(ref) // 2] not in s or -7 in s):
            return bad('ends', 'after %s: first / last / membership disagree with the reference' % step)
        ctx.count('traces')
    ctx.distinct('outcomes', ('large', case['cls'], n > 256))
    return True


def large_task(sub, cases):
    for case in cases:
        try:
            with core.time_limit(120.0):
                large_case(sub, case)
        except core.Timeout:
            sub.violation('c17:large:hang', case, 'comparisons on a set of %d elements did not finish within 120 s' % case['n'])
        except Exception as e:
            sub.violation('c17:large:crash:%s' % type(e).__name__, case, '%s: %s' % (type(e).__name__, e))


def replay(ctx, case):
    if case.get('family') == 'large':
        return large_task(ctx, [case])
    m = SetModel(case['cls'], len(case['universe']), 0)
    for pal in PALETTES + [FALSY_PALETTE, TWIN_PALETTE]:
        if list(map(repr, pal[:len(case['universe'])])) == case['universe']:
            m.universe = pal[:len(case['universe'])]
            m.twins = pal is TWIN_PALETTE
    explorer.replay_case(ctx, m, case['hist'], case.get('op'))


def coverage(ctx):
    closed = all(v for k, v in ctx.notes.items() if k.endswith('_closed'))
    return dict(
        states=ctx.n('states'),
        transitions=ctx.n('transitions'),
        traces_validated_against_impl=ctx.n('traces'),
        evaluations=ctx.n('transitions') + ctx.n('probes'),
        distinct_nontrivial=ctx.nd('outcomes'),
        distinct_outcomes=ctx.nd('outcomes'),
        rule='every (state, operation) pair of the closure is executed; a case is non-trivial/distinct by its '
             '(operation, exception or result) outcome; probes = read-only comparisons/algebra evaluated in every state '
             'against every ordered subset as OrderedSet, QuerySet, list and tuple',
        probes=ctx.n('probes'),
        large_sets=dict(sizes=LARGE_SIZES['quick' if ctx.quick else 'thorough'], builds=LARGE_BUILDS, comparison_rounds=ctx.n('large_comparisons'),
                        what='sets of these sizes (elements 1, 4, 7, ...) built three ways, then pop from both ends / discard / add; after '
                             'every step equality and inequality against list, tuple, OrderedSet, QuerySet, itself and four near misses, '
                             'length, iteration both ways, first / last / membership'),
        bounds=dict(universe=3 if ctx.quick else 5, classes=['OrderedSet', 'QuerySet'],
                    operands='every ordered subset of the universe as OrderedSet/QuerySet/list/tuple/generator/self'),
        exhaustive=bool(closed) and not ctx.caps_hit,
        explanation='breadth-first search to closure over canonical states (reference list + internal linked-list proxy)',
    )
