'''
C16 -- reflexive sorting yields the succession order and terminates.

E2 enumerator.  A *world* is a partial injective successor function on n
instances labelled by creation index (n <= 5 quick, 6/7 thorough): that is
exactly every arrangement of the instances into ordered chains and closed
rings, for every creation order.  For every world every ordered subset of the
instances (every set order; thinned for n >= 6) is handed to
xtuml.sort_reflexive as a QuerySet, across both phrases, under a 1 s timer.

Reference (plain python, from the statement):
  * set made of whole chains  -> every member once, each chain contiguous,
    head = member without partner across the phrase, then along the opposite
    phrase; the other phrase gives every chain reversed; the relative order
    of different chains is NOT claimed;
  * set = one whole closed ring -> once around from the set's first member,
    walking along the opposite phrase;
  * empty set -> empty result;
  * any other set (partial chains, partial rings, ring + chains): the call
    returns within the limit, repeats nothing, emits nothing outside the set.
'''
import itertools
import multiprocessing

from mc import core

NEEDS_BRIDGEPOINT = False
BUDGET_S = {'quick': 3600, 'thorough': 14400}
ASSUMPTIONS = [
    'worlds = all partial injective successor maps on n labelled instances (n <= 5 quick; thorough adds n = 6 and, '
    'for chain-only worlds and the full ring, n = 7); labels are creation indices, so every creation order is covered',
    'set orders: every ordered subset for n <= 5; n = 6: every order of the whole set for chain-only worlds and the full '
    'ring (rotations/reverse otherwise) plus every subset in pool and reverse pool order; n = 7: identity, reverse and '
    'rotations of the whole set plus every subset in pool order',
    'the relative order of different chains is not claimed; for sets that are not made of whole chains (or one whole ring) '
    'only termination within 1 s, no repetition and no member outside the set are claimed; an exception raised for such a '
    'set is recorded as an outcome, not reported',
    'a hang is reported only when the same call exceeds the 1 s limit three times in a row (normal cost about 60 microseconds)',
    'the class carries a second reflexive 1C:1C association (R3, phrases up/down, instances chained in creation order, defined '
    'before R2) and a third one (R4, left/right, reverse creation order, defined after R2) as distractors; only R2 is sorted',
    'one chain, one ring and two chains of 1500 (thorough 4000) members -- longer than the interpreter\'s default recursion limit -- '
    'are sorted across both phrases from three set orders',
    're-link family: the whole set is sorted, the same instances are re-linked into another arrangement, and the RESULT object '
    'of the first call is sorted again (every ordered pair of arrangements of up to 3 / 4 instances, both phrases; every other '
    'pair preceded by a call with an unknown phrase, which the library rejects)',
    'argument validation of sort_reflexive (non-QuerySet argument, unknown phrase) is not part of the statement and is not checked',
]

REL = 2
OTHER_REL = 3
OTHER_PHRASES = ('up', 'down')
THIRD_REL = 4
THIRD_PHRASES = ('left', 'right')
LIMIT_S = 1.0
# isomorphic phrase palettes (phrase across which a member reaches its predecessor, ... its successor)
PALETTES = [('prev', 'next'), ('succeeds', 'precedes'), ('b', 'a'), ('is after', 'is before'),
            ('next', 'prev')]
MODES = 4          # how the links are issued: 0 relate(x, succ) forwards, 1 relate(succ, x) from the other end backwards, 2 alternating,
                   # 3 forwards, then a history of relate / unrelate / delete (accepted and rejected calls) that ends in the same arrangement
MAX_HANGS = 3      # confirmed hangs (whole run) after which the remaining calls are skipped

_HANGS = multiprocessing.Value('i', 0)


# ---------------------------------------------------------------------------
# worlds
# ---------------------------------------------------------------------------

def partial_injections(n):
    '''All partial injective maps succ: {0..n-1} -> {0..n-1} as tuples (None = no successor).'''
    out = []
    succ = [None] * n
    used = [False] * n

    def rec(i):
        if i == n:
            out.append(tuple(succ))
            return
        succ[i] = None
        rec(i + 1)
        for y in range(n):
            if not used[y]:
                used[y] = True
                succ[i] = y
                rec(i + 1)
                used[y] = False
        succ[i] = None
    rec(0)
    return out


def components(succ):
    '''Decompose into (chains, rings): chains as lists head..tail along succ, rings as lists starting at their least label.'''
    n = len(succ)
    has_pred = [False] * n
    for y in succ:
        if y is not None:
            has_pred[y] = True
    seen = [False] * n
    chains, rings = [], []
    for h in range(n):
        if not has_pred[h]:
            c, x = [], h
            while x is not None:
                c.append(x)
                seen[x] = True
                x = succ[x]
            chains.append(c)
    for s in range(n):
        if not seen[s]:
            c, x = [], s
            while not seen[x]:
                c.append(x)
                seen[x] = True
                x = succ[x]
            rings.append(c)
    return chains, rings


def is_pure(succ):
    chains, rings = components(succ)
    return not rings or (not chains and len(rings) == 1)


def worlds(tier):
    '''List of (n, succ) in simplest-first order.'''
    out = []
    top = 5 if tier == 'quick' else 7
    for n in range(0, top + 1):
        for succ in partial_injections(n):
            if n == 7 and not is_pure(succ):
                continue
            out.append((n, succ))
    return out


def set_orders(n, pure):
    '''The ordered subsets of range(n) handed to sort_reflexive for a world of n instances (no duplicates).'''
    labels = list(range(n))
    if n <= 5:
        for k in range(n + 1):
            for p in itertools.permutations(labels, k):
                yield p
        return
    seen = set()

    def emit(p):
        p = tuple(p)
        if p not in seen:
            seen.add(p)
            return True
        return False
    whole = []
    if n == 6 and pure:
        whole = itertools.permutations(labels)
    else:
        whole = [labels, labels[::-1]] + [labels[k:] + labels[:k] for k in range(1, n)]
    for p in whole:
        if emit(p):
            yield tuple(p)
    for k in range(n):
        for c in itertools.combinations(labels, k):
            if emit(c):
                yield c
            if n == 6 and emit(c[::-1]):
                yield c[::-1]


# ---------------------------------------------------------------------------
# the real model
# ---------------------------------------------------------------------------

class World(object):
    pass


def links_of(succ, mode):
    '''[(x, y, issued_from_x)]: y is the successor of x; the order and the end the relate call is issued from depend on mode.'''
    links = [(x, y) for x, y in enumerate(succ) if y is not None]
    if mode in (0, 3):
        return [(x, y, True) for x, y in links]
    if mode == 1:
        return [(x, y, False) for x, y in reversed(links)]
    return [(x, y, k % 2 == 0) for k, (x, y) in enumerate(links)]


def build(succ, mode, pal):
    import xtuml
    p_pred, p_succ = PALETTES[pal]
    w = World()
    w.succ = succ
    w.pal = (p_pred, p_succ)
    m = xtuml.MetaModel(xtuml.IntegerGenerator())
    m.define_class('A', [('Id', 'unique_id'), ('Next_Id', 'unique_id'), ('Other_Id', 'unique_id'), ('Third_Id', 'unique_id')])
    # a second reflexive association of the same class (defined first, other phrases), chaining the instances in
    # creation order: sorting across REL must not be disturbed by it
    m.define_association(OTHER_REL, 'A', ['Other_Id'], False, True, OTHER_PHRASES[0], 'A', ['Id'], False, True,
                         OTHER_PHRASES[1]).formalize()
    ass = m.define_association(REL, 'A', ['Next_Id'], False, True, p_pred, 'A', ['Id'], False, True, p_succ)
    ass.formalize()
    # ... and a third one defined after it, chaining the instances in reverse creation order (round 7: the sorted
    # association is neither the first nor the last reflexive association of its class)
    m.define_association(THIRD_REL, 'A', ['Third_Id'], False, True, THIRD_PHRASES[0], 'A', ['Id'], False, True,
                         THIRD_PHRASES[1]).formalize()
    m.define_unique_identifier('A', 1, 'Id')
    w.m = m
    w.insts = [m.new('A') for _ in succ]
    for x in range(len(succ) - 1):
        xtuml.relate(w.insts[x], w.insts[x + 1], OTHER_REL, OTHER_PHRASES[1])
        xtuml.relate(w.insts[x + 1], w.insts[x], THIRD_REL, THIRD_PHRASES[1])
    for x, y, from_x in links_of(succ, mode):
        if from_x:
            xtuml.relate(w.insts[x], w.insts[y], REL, p_succ)
        else:
            xtuml.relate(w.insts[y], w.insts[x], 'R%d' % REL, p_pred)
    if mode == 3:
        # the same arrangement reached through a longer history: every link is unrelated and related again, every open
        # end is connected to an open start and disconnected again, and a temporary instance is appended and deleted
        has_pred = set(y for y in succ if y is not None)
        for x, y in enumerate(succ):
            if y is not None:
                xtuml.unrelate(w.insts[x], w.insts[y], REL, p_succ)
                xtuml.relate(w.insts[x], w.insts[y], REL, p_succ)
        for x, y in enumerate(succ):
            if y is None:
                free = [z for z in range(len(succ)) if z not in has_pred and z != x]
                if free:
                    xtuml.relate(w.insts[x], w.insts[free[0]], REL, p_succ)
                    xtuml.unrelate(w.insts[free[0]], w.insts[x], REL, p_pred)
                tmp = m.new('A')
                xtuml.relate(w.insts[x], tmp, REL, p_succ)
                xtuml.delete(tmp)
        # a temporary member is spliced into the middle of every link (partners across both phrases) and deleted again
        for x, y in enumerate(succ):
            if y is not None and x != y:
                xtuml.unrelate(w.insts[x], w.insts[y], REL, p_succ)
                tmp = m.new('A')
                xtuml.relate(w.insts[x], tmp, REL, p_succ)
                xtuml.relate(tmp, w.insts[y], REL, p_succ)
                xtuml.delete(tmp)
                xtuml.relate(w.insts[x], w.insts[y], REL, p_succ)
        # relate calls that must be rejected (the end is taken) and must leave no trace
        for x, y in enumerate(succ):
            if y is not None:
                for z in range(len(succ)):
                    if z != x:
                        for a, b, ph in ((z, y, p_succ), (y, z, p_pred), (x, z, p_succ), (z, x, p_pred)):
                            if (ph == p_succ and (succ[a] is not None or b in has_pred) and succ[a] != b) or \
                               (ph == p_pred and (succ[b] is not None or a in has_pred) and succ[b] != a):
                                try:
                                    xtuml.relate(w.insts[a], w.insts[b], REL, ph)
                                except xtuml.MetaException:
                                    pass
                        break
        # unrelate calls that must be rejected because the pair named is not linked (each end has another partner or
        # none, in either direction and across either phrase) and must leave no trace
        for x, y in enumerate(succ):
            if y is not None:
                for z in range(len(succ)):
                    if z in (x, y):
                        continue
                    for a, b, ph in ((x, z, p_succ), (z, x, p_pred), (z, y, p_succ), (y, z, p_pred), (y, x, p_succ), (x, y, p_pred)):
                        linked = (succ[a] == b) if ph == p_succ else (succ[b] == a)
                        if not linked:
                            try:
                                xtuml.unrelate(w.insts[a], w.insts[b], REL, ph)
                            except xtuml.MetaException:
                                pass
        for z in range(len(succ)):
            if z not in has_pred:
                tmp = m.new('A')
                xtuml.relate(tmp, w.insts[z], REL, p_succ)
                xtuml.delete(tmp)
        # after the rejected calls every link is taken apart and made again (from the other end): whatever a rejected
        # call left behind unseen would now take the place of the legitimate partner
        for x, y in enumerate(succ):
            if y is not None:
                xtuml.unrelate(w.insts[y], w.insts[x], REL, p_pred)
                xtuml.relate(w.insts[y], w.insts[x], REL, p_pred)
    w.label = dict((inst, k) for k, inst in enumerate(w.insts))
    # harness precondition (not the property): the links are the intended ones
    pred = [None] * len(succ)
    for x, y in enumerate(succ):
        if y is not None:
            pred[y] = x
    for x, inst in enumerate(w.insts):
        a = xtuml.navigate_one(inst).nav('A', REL, p_succ)()
        b = xtuml.navigate_one(inst).nav('A', REL, p_pred)()
        if w.label.get(a) != succ[x] or w.label.get(b) != pred[x]:
            raise core.HarnessError('C16: world %r (mode %d) was not built as intended: instance %d reaches %r / %r' %
                                    (succ, mode, x, w.label.get(a), w.label.get(b)))
    w.chains, w.rings = components(succ)
    return w


# ---------------------------------------------------------------------------
# reference
# ---------------------------------------------------------------------------

def classify(w, S):
    '''('empty' | 'chains' | 'ring' | 'generic', detail)'''
    if not S:
        return 'empty', None
    members = set(S)
    whole_chains, whole_rings, partial = [], [], False
    for c in w.chains:
        k = len(members.intersection(c))
        if k == len(c):
            whole_chains.append(c)
        elif k:
            partial = True
    for r in w.rings:
        k = len(members.intersection(r))
        if k == len(r):
            whole_rings.append(r)
        elif k:
            partial = True
    if not partial and whole_chains and not whole_rings:
        return 'chains', whole_chains
    if not partial and not whole_chains and len(whole_rings) == 1:
        return 'ring', whole_rings[0]
    return 'generic', None


def expected_ring(ring, first, pi):
    '''Once around from *first*: across the predecessor phrase (pi == 0) walk along successors, else backwards.'''
    k = ring.index(first)
    fwd = ring[k:] + ring[:k]
    if pi == 0:
        return fwd
    return [fwd[0]] + fwd[1:][::-1]


def judge(w, S, pi, out):
    '''Returns None or (kind-of-mismatch, message, expected).'''
    kind, detail = classify(w, S)
    members = set(S)
    outside = [x for x in out if x not in members]
    if outside:
        return ('%s:outside' % kind, 'result %r contains %r which is not in the set %r' % (out, outside, list(S)), None)
    if len(set(out)) != len(out):
        return ('%s:repeated' % kind, 'result %r repeats a member' % (out,), None)
    if kind == 'empty':
        return None
    if kind == 'generic':
        return None
    if sorted(out) != sorted(members):
        missing = sorted(members.difference(out))
        return ('%s:missing' % kind, 'result %r lacks the members %r of the set %r' % (out, missing, list(S)),
                sorted(members))
    if kind == 'chains':
        for c in detail:
            exp = c if pi == 0 else c[::-1]
            k = out.index(exp[0])
            if out[k:k + len(exp)] != exp:
                return ('chains:order', 'chain %r is returned as %r within %r (heads first: the member without partner '
                        'across the phrase, then along the opposite phrase)' % (exp, [x for x in out if x in exp], out), exp)
        return None
    exp = expected_ring(detail, S[0], pi)
    if out != exp:
        if out[0] != exp[0]:
            return ('ring:start', 'ring returned as %r, must start at the first member of the set, %r' % (out, S[0]), exp)
        return ('ring:direction', 'ring returned as %r, expected %r (once around along the opposite phrase)' % (out, exp), exp)
    return None


# ---------------------------------------------------------------------------
# one execution
# ---------------------------------------------------------------------------

def run_sort(w, S, pi, relspell):
    '''-> ('ok', [labels]) | ('exception', name) | ('hang', None)'''
    import xtuml
    phrase = w.pal[pi]
    rel = REL if relspell == 0 else 'R%d' % REL
    qs = xtuml.QuerySet([w.insts[i] for i in S])
    try:
        with core.time_limit(LIMIT_S):
            res = xtuml.sort_reflexive(qs, rel, phrase)
            out = list(itertools.islice(iter(res), 4 * len(w.insts) + 4))
            n = len(res)
    except core.Timeout:
        return 'hang', None
    except Exception as e:
        return 'exception', type(e).__name__
    labels = [w.label.get(x, '?%s' % type(x).__name__) for x in out]
    if n != len(out):
        labels.append('len=%d' % n)
    # the call must leave its argument alone, and asking again must give the same answer
    after = [w.label.get(x, '?') for x in itertools.islice(iter(qs), 4 * len(w.insts) + 4)]
    if after != list(S):
        return 'ok', labels + ['input-set-changed-to=%r' % (after,)]
    try:
        with core.time_limit(LIMIT_S):
            again = [w.label.get(x, '?') for x in itertools.islice(iter(xtuml.sort_reflexive(qs, rel, phrase)), 4 * len(w.insts) + 4)]
    except core.Timeout:
        return 'hang', None
    except Exception as e:
        return 'exception', type(e).__name__
    if again != labels:
        return 'ok', labels + ['second-call=%r' % (again,)]
    return 'ok', labels


def make_case(n, succ, mode, pal, S, pi, relspell):
    return dict(n=n, succ=list(succ), mode=mode, palette=pal, set=list(S), phrase=pi, relspell=relspell)


def check_one(sub, w, n, succ, mode, pal, S, pi, relspell):
    '''Run one sort call and judge it.  Returns False when the run should stop issuing calls (hang budget used).'''
    sub.count('sort_calls')
    status, out = run_sort(w, S, pi, relspell)
    if status == 'hang':
        # bounded-time oracle: only a limit exceeded three times in a row counts (a loaded machine may stall a process
        # for more than a second; a real hang repeats)
        sub.count('timeouts_first')
        status, out = run_sort(w, S, pi, relspell)
        if status == 'hang':
            status, out = run_sort(w, S, pi, relspell)
        if status == 'hang':
            with _HANGS.get_lock():
                _HANGS.value += 1
            case = make_case(n, succ, mode, pal, S, pi, relspell)
            sub.violation('c16:hang', case,
                          'sort_reflexive did not return within %.0f s (three attempts): successors %r, set %r, phrase %r' %
                          (LIMIT_S, list(succ), list(S), w.pal[pi]),
                          'a result within %.0f s' % LIMIT_S, 'no result', unit_test=unit_test(case))
            return _HANGS.value < MAX_HANGS
    kind, _ = classify(w, S)
    if status == 'exception':
        sub.count('exceptions')
        sub.distinct('outcomes', (kind, 'exception', out))
        if kind != 'generic':
            case = make_case(n, succ, mode, pal, S, pi, relspell)
            sub.violation('c16:%s:exception' % kind, case,
                          'sort_reflexive raised %s: successors %r, set %r, phrase %r' % (out, list(succ), list(S), w.pal[pi]),
                          'a result', out, unit_test=unit_test(case))
        return True
    sub.count('judged_' + kind)
    sub.distinct('outcomes', (n, tuple(out)))
    if out and isinstance(out[-1], str) and out[-1].startswith(('input-set-changed', 'second-call')):
        case = make_case(n, succ, mode, pal, S, pi, relspell)
        what = out[-1].split('=')[0]
        sub.violation('c16:%s' % what, case,
                      'successors %r, set %r sorted across %r: %s' % (list(succ), list(S), w.pal[pi], out[-1]),
                      None, out, unit_test=unit_test(case))
        return True
    bad = judge(w, S, pi, out)
    if bad:
        case = make_case(n, succ, mode, pal, S, pi, relspell)
        sub.violation('c16:' + bad[0], case,
                      'successors %r (creation order = label), set %r sorted across %r (%s phrase): %s' %
                      (list(succ), list(S), w.pal[pi], 'predecessor' if pi == 0 else 'successor', bad[1]),
                      bad[2], out, unit_test=unit_test(case))
        return True
    # bookkeeping for the vacuity guards
    if kind == 'chains':
        chains = classify(w, S)[1]
        if len(chains) >= 2:
            sub.count('multi_chain_sets')
        if any(len(c) >= 2 and c != sorted(c) for c in chains):
            sub.count('creation_order_differs')
        if any(len(c) >= 2 for c in chains) and list(S) != out:
            sub.count('result_differs_from_input_order')
        if len(chains) >= 2 or any(len(c) >= 3 for c in chains):
            sub.count('nontrivial')
    elif kind == 'ring':
        sub.count('ring_len_%d' % len(out))
        if len(out) >= 2:
            sub.count('nontrivial')
    return True


def run_world(sub, task):
    idx, n, succ = task
    if _HANGS.value >= MAX_HANGS:
        sub.count('worlds_skipped_after_hangs')
        return None
    if sub.time_left() < 0:
        sub.cap('time budget reached: not every world was explored')
        sub.count('worlds_skipped_after_hangs')
        return None
    pure = is_pure(succ)
    modes = range(MODES) if n <= 4 else [(idx + sub.seed) % MODES]
    pal = sub.seed % len(PALETTES)
    w = None
    for mode in modes:
        try:
            w = build(succ, mode, pal)
        except (core.HarnessError, Exception) as e:
            # the arrangement could not be produced with relate / unrelate / delete calls that must produce it
            # (for mode 3: including rejected calls that must leave no trace)
            sub.violation('c16:build:arrangement', make_case(n, succ, mode, pal, tuple(range(n)), 0, 0),
                          'the arrangement %r could not be built through the public API (mode %d): %s' % (list(succ), mode, e))
            continue
        sub.count('worlds')
        sub.count('build_ops', n + max(0, n - 1) + sum(1 for y in succ if y is not None))
        for k, S in enumerate(set_orders(n, pure)):
            sub.count('inputs')
            for pi in (0, 1):
                if not check_one(sub, w, n, succ, mode, pal, S, pi, (idx + k + pi + sub.seed) % 2):
                    return None
    if n >= 4 and pure and idx % 211 == 5 and w is not None:
        S = tuple(range(n))
        sub.sample(dict(successors=list(succ), set=list(S), phrases=list(PALETTES[pal]),
                        result_across_first_phrase=run_sort(w, S, 0, 0)[1],
                        result_across_second_phrase=run_sort(w, S, 1, 0)[1], kind=classify(w, S)[0]))
    return None


def relink_check(sub, case):
    '''Sort the whole set in arrangement succ1, re-link the same instances into succ2 through unrelate / relate, then sort the
    RESULT object of the first call again (same association, same phrase): it must be judged like any set in arrangement 2.'''
    import xtuml
    succ1, succ2, pal, pi, poison = tuple(case['succ']), tuple(case['succ2']), case['palette'], case['phrase'], case['poison']
    n = len(succ1)
    try:
        w = build(succ1, 0, pal)
        phrase = w.pal[pi]
        p_pred, p_succ = w.pal
        if poison:
            # a call the library rejects (unknown phrase) comes first; it must not change what later calls answer
            try:
                xtuml.sort_reflexive(xtuml.QuerySet(w.insts), REL, 'no such phrase')
            except Exception:
                pass
        with core.time_limit(LIMIT_S * 10):
            r = xtuml.sort_reflexive(xtuml.QuerySet(w.insts), REL, phrase)
        for x, y in enumerate(succ1):
            if y is not None:
                xtuml.unrelate(w.insts[x], w.insts[y], REL, p_succ)
        for x, y in enumerate(succ2):
            if y is not None:
                xtuml.relate(w.insts[x], w.insts[y], REL, p_succ)
        w.succ = succ2
        w.chains, w.rings = components(succ2)
        S = tuple(w.label[i] for i in r)
        with core.time_limit(LIMIT_S * 10):
            out = [w.label.get(i, '?') for i in itertools.islice(iter(xtuml.sort_reflexive(r, REL, phrase)), 4 * n + 4)]
    except core.Timeout:
        sub.violation('c16:relink:hang', case, 'sorting %r, re-linking to %r and sorting the result again does not return' %
                      (list(succ1), list(succ2)))
        return
    except Exception as e:
        sub.violation('c16:relink:exception', case, 'sorting %r%s, re-linking to %r and sorting the result again raised %s: %s' %
                      (list(succ1), ' (after a rejected call with an unknown phrase)' if poison else '', list(succ2),
                       type(e).__name__, e), 'a result', type(e).__name__)
        return
    sub.count('relink_sorts')
    if sorted(S) != list(range(n)):
        return          # the first result is judged by the main family
    bad = judge(w, S, pi, out)
    if bad:
        sub.violation('c16:relink:' + bad[0], case,
                      'arrangement %r sorted across %r gives the set %r; after re-linking the instances to %r, sorting that result '
                      'object again: %s' % (list(succ1), phrase, list(S), list(succ2), bad[1]), bad[2], out)


def relink_task(sub, task):
    n, pairs = task
    pal = sub.seed % len(PALETTES)
    for k, (s1, s2) in enumerate(pairs):
        for pi in (0, 1):
            relink_check(sub, dict(kind='relink', n=n, succ=list(s1), succ2=list(s2), palette=pal, phrase=pi, poison=(k + pi) % 2))
    return None


LONG_N = {'quick': 1500, 'thorough': 4000}


def long_worlds(tier):
    '''One chain, one ring and two chains of a length beyond python's default recursion limit (labels = creation order).'''
    n = LONG_N[tier]
    chain = tuple(list(range(1, n)) + [None])
    ring = tuple(list(range(1, n)) + [0])
    half = n // 2
    two = tuple(list(range(1, half)) + [None] + list(range(half + 1, n)) + [None])
    return [('chain', chain), ('ring', ring), ('two-chains', two)]


def long_task(sub, task):
    shape, succ = task
    n = len(succ)
    pal = sub.seed % len(PALETTES)
    try:
        w = build(succ, 0, pal)
    except (core.HarnessError, Exception) as e:
        sub.violation('c16:build:arrangement', make_case(n, succ, 0, pal, (0,), 0, 0),
                      'a %s of %d members could not be built through the public API: %s' % (shape, n, e))
        return None
    sub.count('long_worlds')
    orders = [tuple(range(n)), tuple(reversed(range(n))), tuple(list(range(n // 3, n)) + list(range(n // 3)))]
    for S in orders:
        for pi in (0, 1):
            sub.count('long_sort_calls')
            if not check_one(sub, w, n, succ, 0, pal, S, pi, 0):
                return None
    return None


def unit_test(case):
    p_pred, p_succ = PALETTES[case['palette']]
    n = case['n']
    lines = ['import xtuml',
             'm = xtuml.MetaModel(xtuml.IntegerGenerator())',
             "m.define_class('A', [('Id', 'unique_id'), ('Next_Id', 'unique_id'), ('Other_Id', 'unique_id'), ('Third_Id', 'unique_id')])",
             "m.define_association(%d, 'A', ['Other_Id'], False, True, %r, 'A', ['Id'], False, True, %r).formalize()" %
             (OTHER_REL, OTHER_PHRASES[0], OTHER_PHRASES[1]),
             "m.define_association(%d, 'A', ['Next_Id'], False, True, %r, 'A', ['Id'], False, True, %r).formalize()" %
             (REL, p_pred, p_succ),
             "m.define_association(%d, 'A', ['Third_Id'], False, True, %r, 'A', ['Id'], False, True, %r).formalize()" %
             (THIRD_REL, THIRD_PHRASES[0], THIRD_PHRASES[1]),
             "a = [m.new('A') for _ in range(%d)]" % n,
             'for i in range(%d): xtuml.relate(a[i], a[i + 1], %d, %r)   # the other association: creation order' %
             (max(0, n - 1), OTHER_REL, OTHER_PHRASES[1]),
             'for i in range(%d): xtuml.relate(a[i + 1], a[i], %d, %r)   # the third association: reverse creation order' %
             (max(0, n - 1), THIRD_REL, THIRD_PHRASES[1])]
    for x, y, from_x in links_of(case['succ'], case['mode']):
        if from_x:
            lines.append('xtuml.relate(a[%d], a[%d], %d, %r)' % (x, y, REL, p_succ))
        else:
            lines.append("xtuml.relate(a[%d], a[%d], 'R%d', %r)" % (y, x, REL, p_pred))
    rel = REL if case['relspell'] == 0 else 'R%d' % REL
    lines.append('s = xtuml.QuerySet([%s])' % ', '.join('a[%d]' % i for i in case['set']))
    lines.append('r = xtuml.sort_reflexive(s, %r, %r)   # guard with a timer: may not return' %
                 (rel, PALETTES[case['palette']][case['phrase']]))
    lines.append('print([a.index(x) for x in r])')
    return '\n'.join(lines)


# ---------------------------------------------------------------------------
# framework entry points
# ---------------------------------------------------------------------------

def selftest():
    '''Hand-computed cases for the reference.'''
    assert len(partial_injections(3)) == 34 and len(partial_injections(4)) == 209
    assert components((1, None, 0)) == ([[2, 0, 1]], [])
    assert components((1, 0, None)) == ([[2]], [[0, 1]])
    w = World()
    w.chains, w.rings = components((2, None, 1, None))      # 0 -> 2 -> 1 ; 3
    assert classify(w, (3, 1, 0, 2))[0] == 'chains' and classify(w, (3,)) == ('chains', [[3]])
    assert classify(w, (0, 2))[0] == 'generic' and classify(w, ())[0] == 'empty'
    assert judge(w, (3, 1, 0, 2), 0, [3, 0, 2, 1]) is None and judge(w, (3, 1, 0, 2), 0, [0, 2, 1, 3]) is None
    assert judge(w, (3, 1, 0, 2), 1, [1, 2, 0, 3]) is None
    assert judge(w, (3, 1, 0, 2), 0, [1, 2, 0, 3])[0] == 'chains:order'
    assert judge(w, (3, 1, 0, 2), 0, [0, 2, 1])[0] == 'chains:missing'
    assert judge(w, (0, 2), 0, [0, 2, 1])[0] == 'generic:outside' and judge(w, (0, 2), 0, [2]) is None
    w.chains, w.rings = components((2, 0, 1))               # ring 0 -> 2 -> 1 -> 0
    assert classify(w, (1, 0, 2)) == ('ring', [0, 2, 1])
    assert judge(w, (1, 0, 2), 0, [1, 0, 2]) is None and judge(w, (1, 0, 2), 1, [1, 2, 0]) is None
    assert judge(w, (1, 0, 2), 0, [1, 2, 0])[0] == 'ring:direction' and judge(w, (1, 0, 2), 0, [0, 2, 1])[0] == 'ring:start'


def run(ctx):
    selftest()
    _HANGS.value = 0
    ws = worlds(ctx.tier)
    tasks = [(i, n, succ) for i, (n, succ) in enumerate(ws)]
    # one pool for the whole run; simplest worlds first, chunks small enough to spread the big worlds over all workers
    big = [t for t in tasks if t[1] >= 5]
    small = [t for t in tasks if t[1] < 5]
    k = ctx.seed % 7
    big = big[k:] + big[:k]
    ctx.pmap(run_world, small + big, chunk=max(8, len(tasks) // 512))
    # re-linking between two sorts of the same result object: every ordered pair of arrangements of n <= 3 (thorough: 4) instances
    rtasks = []
    for n in range(1, (3 if ctx.quick else 4) + 1):
        arr = [succ for succ in partial_injections(n)]
        pairs = [(a, b) for a in arr for b in arr if a != b]
        for i in range(0, len(pairs), 200):
            rtasks.append((n, pairs[i:i + 200]))
    ctx.pmap(relink_task, rtasks, chunk=1)
    ctx.require(ctx.n('relink_sorts') >= 1000, 'too few re-link sorts (%d)' % ctx.n('relink_sorts'))
    ctx.pmap(long_task, long_worlds(ctx.tier), chunk=1)
    ctx.require(ctx.n('long_sort_calls') >= 18, 'long chains / rings were not sorted (%d calls)' % ctx.n('long_sort_calls'))
    top = 5 if ctx.quick else 7
    ctx.notes['worlds_enumerated'] = len(ws)
    print('  worlds=%d sort_calls=%d chains=%d ring=%d generic=%d empty=%d t=%.0fs' %
          (ctx.n('worlds'), ctx.n('sort_calls'), ctx.n('judged_chains'), ctx.n('judged_ring'),
           ctx.n('judged_generic'), ctx.n('judged_empty'), ctx.elapsed()), flush=True)
    # vacuity guards
    ctx.require(ctx.n('worlds') >= len(ws), 'not every world was built (%d of %d)' % (ctx.n('worlds'), len(ws)))
    ctx.require(ctx.n('judged_chains') >= (100000 if ctx.quick else 5000000),
                'too few whole-chain sets compared (%d)' % ctx.n('judged_chains'))
    ctx.require(ctx.n('multi_chain_sets') >= 50000, 'too few sets with several chains (%d)' % ctx.n('multi_chain_sets'))
    ctx.require(ctx.n('creation_order_differs') >= 50000,
                'too few chains whose creation order differs from their succession (%d)' % ctx.n('creation_order_differs'))
    ctx.require(ctx.n('result_differs_from_input_order') >= 50000, 'sorting hardly ever changed the order')
    for k in range(1, top + 1):
        ctx.require(ctx.n('ring_len_%d' % k) >= 2, 'no whole ring of length %d was sorted' % k)
    ctx.require(ctx.n('judged_generic') >= 100000, 'too few partial sets / mixtures (%d)' % ctx.n('judged_generic'))
    ctx.require(ctx.n('judged_empty') >= 2 * len(ws), 'the empty set was not sorted in every world')
    ctx.require(ctx.nd('outcomes') >= 300, 'too few distinct results (%d)' % ctx.nd('outcomes'))
    ctx.require(ctx.n('sort_calls') == ctx.n('judged_chains') + ctx.n('judged_ring') + ctx.n('judged_generic') +
                ctx.n('judged_empty') + ctx.n('exceptions'), 'some sort calls were not judged')


def replay(ctx, case):
    _HANGS.value = 0
    if case.get('kind') == 'relink':
        return relink_check(ctx, case)
    succ = tuple(case['succ'])
    try:
        w = build(succ, case['mode'], case['palette'])
    except (core.HarnessError, Exception) as e:
        ctx.violation('c16:build:arrangement', case, 'the arrangement could not be built through the public API: %s' % e)
        return
    check_one(ctx, w, case['n'], succ, case['mode'], case['palette'], tuple(case['set']), case['phrase'],
              case['relspell'])


def coverage(ctx):
    full = ctx.n('judged_chains') + ctx.n('judged_ring') + ctx.n('judged_empty')
    top = 5 if ctx.quick else 7
    return dict(
        states=ctx.n('inputs'),
        transitions=ctx.n('sort_calls'),
        traces_validated_against_impl=full + ctx.n('judged_generic'),
        evaluations=ctx.n('sort_calls'),
        distinct_nontrivial=ctx.n('nontrivial'),
        distinct_outcomes=ctx.nd('outcomes'),
        rule='an input is (world, ordered subset); every input is sorted across both phrases.  Non-trivial = a call on a set of '
             'whole chains holding at least two chains or a chain of at least three members, or on a whole ring of at least two '
             'members (each such call is a distinct (world, set order, phrase) triple by construction)',
        worlds=ctx.n('worlds'),
        worlds_enumerated=ctx.notes.get('worlds_enumerated'),
        full_oracle=dict(whole_chain_sets=ctx.n('judged_chains'), whole_rings=ctx.n('judged_ring'),
                         empty_sets=ctx.n('judged_empty')),
        termination_and_membership_only=ctx.n('judged_generic'),
        exceptions_on_partial_sets=ctx.n('exceptions'),
        multi_chain_sets=ctx.n('multi_chain_sets'),
        creation_order_differs_from_succession=ctx.n('creation_order_differs'),
        rings_by_length=dict((str(k), ctx.n('ring_len_%d' % k)) for k in range(1, top + 1)),
        first_timeouts_not_confirmed=ctx.n('timeouts_first') - ctx.vio_counts.get('c16:hang', 0),
        build_operations=ctx.n('build_ops'),
        bounds=dict(max_instances=top, time_limit_s=LIMIT_S, phrases=list(PALETTES[ctx.seed % len(PALETTES)]),
                    relate_modes=MODES,
                    worlds='all partial injective successor maps for n <= %d%s' %
                           (5 if ctx.quick else 6, '' if ctx.quick else '; n = 7: chain-only worlds and the full rings'),
                    set_orders='every ordered subset for n <= 5' + ('' if ctx.quick else
                               '; n = 6: all orders of the whole set (chain-only / full ring) or rotations+reverse, plus all '
                               'subsets in pool and reverse order; n = 7: identity/reverse/rotations plus all subsets in pool order')),
        exhaustive=not ctx.caps_hit and ctx.n('worlds_skipped_after_hangs') == 0,
    )
