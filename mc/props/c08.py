'''
C08 -- OAL keywords are case-insensitive in parsing, execution and prebuild.

E3 on top of the C07 / C04 / C05 generators: every program is rendered with
every keyword *kind* independently in lower, UPPER, Capitalised or mIxEd case
(full product for programs with few kinds, all single and double deviations
plus the uniform renderings otherwise) and must parse to the same tree,
compute the same result and final model, and prebuild to the same instances.
Keyword operators applied to the result of keyword operators (not empty x,
not not_empty x, not (cardinality x == 0), ...) are additionally rendered per
keyword occurrence and compared with the tree / result / instances of their
all-lower-case spelling.
'''
import itertools

from mc import core
from mc.refs import oalast as A
from mc.refs import oalfam as F
from mc.props import c04

NEEDS_BRIDGEPOINT = True
BUDGET_S = {'quick': 3600, 'thorough': 14400}
ASSUMPTIONS = [
    'fields that carry the keyword text itself (operator, cardinality, boolean literal, self as instance name) are compared '
    'case-insensitively; the normalising accessor .many exactly',
    'prebuilt instances are compared apart from the recorded source text (labels and the action text itself)',
    'nested keyword operators (a keyword unary operator, `and` or `==` over the result of keyword unary operators; expression trees of '
    'depth <= 3 on one leaf, plus parenthesised, returned, if / elif / while condition and where-clause contexts) are rendered per keyword '
    'OCCURRENCE: every occurrence independently lower / UPPER / Capitalised (thorough: + mIxEd) for up to 3 (4) occurrences, otherwise '
    'uniform, single and pairwise deviations; the oracle is the tree of the all-lower-case spelling of the same program (keyword-carrying '
    'fields folded), then the tree the program was printed from',
    'operation bodies (differential across spellings) include keyword operators whose operands have an effect when evaluated (a '
    're-entrant call that adds one to an attribute): not / empty / not_empty / and / or, nested, as assigned value and as if condition',
    'interpreted and prebuilt programs with nested keyword operators are rendered with one occurrence at a time in UPPER and Capitalised '
    '(prebuild: also pairs of occurrences of the keywords that are handed on as written) on top of the per-kind renderings',
]
STYLES = ['lower', 'upper', 'cap', 'mixed']


def renderings(kinds, full_limit):
    '''List of dict kind->style.'''
    kinds = sorted(kinds)
    out = []
    if len(kinds) <= full_limit:
        for combo in itertools.product(STYLES, repeat=len(kinds)):
            out.append(dict(zip(kinds, combo)))
        return out
    for st in STYLES:
        out.append(dict((k, st) for k in kinds))
    for k in kinds:
        for st in STYLES[1:]:
            out.append({k: st})
    for k1, k2 in itertools.combinations(kinds, 2):
        for s1 in ('upper', 'mixed'):
            for s2 in ('upper', 'cap'):
                out.append({k1: s1, k2: s2})
    return out


def layout_for(r):
    '''r maps a keyword kind ("NOT") or one occurrence of it ("NOT#1": the second NOT of the program, counted over the
    printed tokens) to a style; the occurrence entry wins.'''
    return A.Layout(kwcase=lambda kind, n: r.get('%s#%d' % (kind, n), r.get(kind, 'lower')))


def keyword_occurrences(p, first_tok=0):
    '''["KIND#n"] of every keyword token of the printed program from token index first_tok on.'''
    occ, out = {}, []
    for i, t in enumerate(p.toks):
        if t.kw:
            n = occ.get(t.kw, 0)
            occ[t.kw] = n + 1
            if i >= first_tok:
                out.append('%s#%d' % (t.kw, n))
    return out


def occurrence_renderings(occs, styles, full_limit):
    '''Per-occurrence renderings: every occurrence independently in every style when there are at most full_limit
    occurrences; otherwise the uniform renderings, every single occurrence and every pair of occurrences deviating.'''
    out = []
    if len(occs) <= full_limit:
        for combo in itertools.product(['lower'] + list(styles), repeat=len(occs)):
            out.append(dict((o, st) for o, st in zip(occs, combo) if st != 'lower'))
        return out
    out.append({})
    for st in styles:
        out.append(dict((o, st) for o in occs))
        for o in occs:
            out.append({o: st})
    for o1, o2 in itertools.combinations(occs, 2):
        for s1, s2 in itertools.product(styles[:2], repeat=2):
            out.append({o1: s1, o2: s2})
    return out


def folded_structure(node):
    '''Dump of a real parse tree without positions, the fields that carry keyword text (operator, cardinality, boolean
    literal, self as instance name) lower-cased.'''
    if node is None or isinstance(node, (int, float, bool)):
        return node
    if isinstance(node, str):
        return node
    if isinstance(node, (list, tuple)):
        return [folded_structure(x) for x in node]
    d = [type(node).__name__]
    for k, v in sorted(vars(node).items()):
        if k in ('position', 'character_stream'):
            continue
        if isinstance(v, str):
            if k in ('operator', 'cardinality') or (k == 'value' and type(node).__name__ == 'BooleanNode') or \
                    (k.endswith('variable_name') and v.lower() == 'self'):
                v = v.lower()
            d.append((k, v))
        else:
            d.append((k, folded_structure(v)))
    return d


# ---------------------------------------------------------------------------
# nested keyword operators: a keyword operator applied to the result of another one, every keyword OCCURRENCE
# varied independently; oracle: the same tree as the all-lower-case spelling (and the tree the printer expects)
# ---------------------------------------------------------------------------

KW_UNARY = ['not', 'empty', 'not_empty', 'cardinality']


def nested_operator_programs():
    '''(name, statements): every expression tree of depth <= 3 over the keyword unary operators, `and` and `==` on one
    leaf, as the value of an assignment; the unary-over-unary trees also parenthesised, as a returned value, as the
    condition of if / elif / while and as a where clause.'''
    x = ('var', 'x')
    out = []
    for e in A.expr_trees(3, ['and'], KW_UNARY, [x]):
        if A.count_nodes(e) >= 3:
            out.append(('nested', [('assign', ('var', 'r'), e, False)]))
    card = ('un', 'cardinality', x)
    for e in (('un', 'not', ('bin', '==', card, x)), ('bin', '==', ('un', 'not', card), x), ('bin', '==', card, card),
              ('bin', '==', ('un', 'not', ('un', 'empty', x)), ('un', 'not_empty', x)), ('un', 'empty', ('bin', '==', card, x)),
              ('bin', 'or', ('un', 'not', ('bin', '==', card, x)), ('un', 'not', ('un', 'not_empty', x)))):
        out.append(('nested_cmp', [('assign', ('var', 'r'), e, False)]))
    for o1 in KW_UNARY:
        for o2 in KW_UNARY:
            e = ('un', o1, ('un', o2, x))
            g = ('un', o1, ('grp', ('un', o2, x)))
            out.append(('nested_paren', [('assign', ('var', 'r'), g, False)]))
            out.append(('nested_return', [('return', e)]))
            out.append(('nested_if', [('if', e, [], [(g, [])], None, [False, False])]))
            out.append(('nested_while', [('while', e, [('break',)], False)]))
            out.append(('nested_where', [('selfrom', 'any', 'n', 'A', e, True)]))
        for o2 in KW_UNARY:
            for o3 in KW_UNARY[:3]:
                out.append(('nested_3', [('assign', ('var', 'r'), ('un', o1, ('un', o2, ('un', o3, x))), False)]))
    return out


def nested_parse_task(ctx, task):
    tier, items = task
    from bridgepoint import oal
    styles = STYLES[1:3] if tier == 'quick' else STYLES[1:]
    for name, stmts in items:
        p = A.print_program(stmts)
        occs = keyword_occurrences(p)
        base_text, _ = A.assemble(p, A.Layout())
        try:
            base = folded_structure(oal.parse(base_text))
        except Exception as e:
            ctx.violation('c08:parse-nested:lower-case:%s' % type(e).__name__, dict(kind='parse-nested', name=name, stmts=stmts, rendering={}),
                          '%r does not parse: %s' % (base_text, e))
            continue
        for r in occurrence_renderings(occs, styles, 3 if tier == 'quick' else 4):
            text, spans = A.assemble(p, layout_for(r))
            ctx.count('parses')
            ctx.count('nested_parses')
            case = dict(kind='parse-nested', name=name, stmts=stmts, rendering=r)
            ut = 'from bridgepoint import oal\noal.parse(%r)   # compare with oal.parse(%r)' % (text, base_text)
            try:
                root = oal.parse(text)
            except Exception as e:
                ctx.violation('c08:parse-nested:%s' % type(e).__name__, case, '%r does not parse although its lower-case spelling %r does: %s'
                              % (text, base_text, e), 'same tree as lower case', type(e).__name__, unit_test=ut)
                continue
            got = folded_structure(root)
            if got != base:
                ctx.violation('c08:parse-nested:tree-differs-from-lower-case', case,
                              '%r parses to another tree than %r, which differs from it only in the case of keywords' % (text, base_text),
                              base, got, unit_test=ut)
                continue
            diffs = A.compare(root, p.expected, text, spans, positions=False, kwfold=True)
            if diffs:
                ctx.violation('c08:parse-nested:tree', case, '%r (and its lower-case spelling) parse to a tree other than the one the '
                              'program was printed from: %s' % (text, diffs[:3]), None, diffs[:5], unit_test=ut)
                continue
            ctx.count('traces')
            ctx.distinct('parse_cases', (name, repr(stmts), repr(sorted(r.items()))))
            if r:
                ctx.distinct('nontrivial', ('parse-nested', name, repr(stmts), repr(sorted(r.items()))))


def manys(node, out):
    '''Collect (.many, cardinality) of every select node of a real tree.'''
    if node is None or isinstance(node, (str, int, float)):
        return
    if hasattr(node, 'many') and hasattr(node, 'cardinality'):
        out.append((node.many, node.cardinality))
    for v in vars(node).values():
        if isinstance(v, list):
            for x in v:
                manys(x, out)
        elif hasattr(v, '__dict__'):
            manys(v, out)


def parse_task(ctx, task):
    tier, items = task
    from bridgepoint import oal
    limit = 3 if tier == 'quick' else 5
    for name, stmts in items:
        p = A.print_program(stmts)
        kinds = set(t.kw for t in p.toks if t.kw)
        if not kinds:
            continue
        for r in renderings(kinds, limit):
            text, spans = A.assemble(p, layout_for(r))
            ctx.count('parses')
            case = dict(kind='parse', name=name, stmts=stmts, rendering=r)
            try:
                root = oal.parse(text)
            except Exception as e:
                ctx.violation('c08:parse:%s' % type(e).__name__, case, '%r does not parse although its lower-case rendering does: %s' % (text, e),
                              'same tree as lower case', type(e).__name__,
                              unit_test='from bridgepoint import oal\noal.parse(%r)' % text)
                continue
            diffs = A.compare(root, p.expected, text, spans, positions=False, kwfold=True)
            if diffs:
                ctx.violation('c08:parse:tree', case, '%r parses to a different tree than its lower-case rendering: %s' % (text, diffs[:3]),
                              None, diffs[:5], unit_test='from bridgepoint import oal\noal.parse(%r)' % text)
                continue
            ms = []
            manys(root, ms)
            wrong = [m for m in ms if m[0] != (m[1].lower() == 'many')]
            if wrong:
                ctx.violation('c08:parse:many-accessor', case, '%r: select node .many disagrees with its cardinality %r' % (text, wrong), None, wrong)
                continue
            ctx.count('traces')
            ctx.distinct('parse_cases', (name, repr(stmts), repr(sorted(r.items()))))
            if any(v != 'lower' for v in r.values()):
                ctx.distinct('nontrivial', ('parse', name, repr(stmts), repr(sorted(r.items()))))


def interpret_corpus(tier):
    '''Programs of the C04 families: every setup followed by every menu statement.'''
    out = []
    for setup in c04.SETUPS:
        _, ref, env = c04.run_reference(setup)
        for s in c04.menu(env, ref, tier, core_only=False):
            out.append(setup + [s])
    # programs whose right operand of and/or fails or has an effect when evaluated (outside the reference's domain:
    # only the renderings are compared with each other)
    V, I, B, U, F_ = c04.V, c04.I, c04.B, c04.U, c04.F
    setup = c04.SETUPS[1]
    for op, left in (('and', c04.FALSE), ('or', c04.TRUE), ('and', c04.TRUE), ('or', c04.FALSE)):
        out.append(setup + [('selfrom', 'any', 'nobody', 'A', B('==', ('field', ('selected',), 'K'), I(99)), True),
                            c04.ASG(V('f'), B(op, left, B('==', F_('nobody', 'N'), I(1))))])
        out.append(setup + [c04.ASG(V('f'), B(op, left, B('==', B('/', I(1), I(0)), I(1))))])
        out.append(setup + [c04.ASG(V('f'), B(op, V('i'), c04.TRUE))])
    # (round 9, C08-18) `select one` along chains that reach several instances, with and without a where clause: outside the
    # reference's domain (which instance, if any, is selected is not defined), but every spelling must select alike
    fan = c04.fan_population([0, 1, 2])
    sel = ('selected',)
    for chain in ([('B', 'R1', None)], [('B', 'R3', None)], [('A', 'R4', c04.T('one'))], [('C', 'R3', None), ('B', 'R3', None)]):
        for where in (None, B('>=', ('field', sel, 'K'), I(1)), B('==', ('field', sel, 'K'), I(2))):
            out.append(fan + [('selrel', 'one', 'x', V('a1'), chain, where),
                              c04.IF(U('not_empty', V('x')), [c04.ASG(F_('x', 'K'), I(77))]),
                              c04.IF(U('empty', V('x')), [c04.ASG(F_('a1', 'K'), I(88))])])
    # keyword operators applied to the result of keyword operators (rendered per occurrence by interpret_task)
    setup = c04.SETUPS[2]
    nobody = ('selfrom', 'any', 'nobody', 'A', B('==', ('field', ('selected',), 'K'), I(99)), True)
    a1, as_, f = V('a1'), V('as_'), V('f')
    for e in (U('not', U('empty', a1)), U('not', U('not_empty', a1)), U('not', U('empty', V('nobody'))), U('not', U('not_empty', V('nobody'))),
              U('not', U('empty', as_)), U('not', ('grp', U('not_empty', as_))), U('not', U('not', f)), U('not', U('not', U('empty', a1))),
              U('not', B('==', U('cardinality', as_), I(0))), B('and', U('not', U('empty', a1)), U('not', U('not', f)))):
        out.append(setup + [nobody, c04.ASG(V('g'), e)])
        out.append(setup + [nobody, c04.IF(e, [c04.ASG(V('i'), I(5))])])
    return out


def has_nested_unary(x, below=False):
    '''Does the statement contain a keyword unary operator below another one?'''
    if isinstance(x, (list, tuple)):
        if len(x) == 3 and x[0] == 'un' and isinstance(x[1], str) and x[1][:1].isalpha():
            if below:
                return True
            return has_nested_unary(x[2], True)
        return any(has_nested_unary(y, below) for y in x)
    return False


def interpret_task(ctx, task):
    tier, progs = task
    for prog in progs:
        try:
            _, _, env = c04.run_reference(prog)
        except c04.E.OutOfDomain as e:
            if 'fuel' not in str(e):
                differential_only(ctx, prog, tier)
            continue
        probes = c04.probe_statements(env) if env is not None else []
        p = A.print_program(list(prog) + probes)
        kinds = set(t.kw for t in p.toks if t.kw)
        rs = [dict((k, st) for k in kinds) for st in STYLES[1:]]
        last = A.print_program([prog[-1]])
        for k in sorted(set(t.kw for t in last.toks if t.kw)):
            rs.append({k: 'upper'})
            if tier == 'thorough':
                rs.append({k: 'mixed'})
        if has_nested_unary(prog[-1]):
            # every keyword occurrence of the last statement on its own
            first_tok = len(A.print_program(list(prog[:-1])).toks)
            for o in keyword_occurrences(A.print_program(list(prog)), first_tok):
                rs += [{o: st} for st in (('upper', 'cap') if tier == 'quick' else STYLES[1:])]
            ctx.count('interpret_per_occurrence_programs')
        for r in rs:
            ctx.count('interpret_runs')
            status, _ = c04.check_program(ctx, prog, 'case', layout=layout_for(r), sigprefix='c08:interpret',
                                          extra_case=dict(kind='interpret', rendering=r))
            if status == 'ok':
                ctx.distinct('nontrivial', ('interpret', repr(prog), repr(sorted(r.items()))))


def real_outcome(text):
    '''What the real interpreter does with a program the reference does not define: value + population, or the exception class.'''
    import xtuml
    from bridgepoint import ooaofooa, interpret
    from mc.refs import relmodel
    dom = relmodel.build_real(xtuml, c04.SCHEMA, xtuml.IntegerGenerator(), factory=ooaofooa.Domain)
    try:
        with core.time_limit(10.0):
            value = interpret.run_function(dom, 'c08', text, {})
    except core.Timeout:
        return ['timeout']
    except Exception as e:
        return ['raised', type(e).__name__]
    pop = []
    for k in c04.SCHEMA.kinds():
        refs = c04.SCHEMA.referentials(k)
        for inst in dom.select_many(k):
            pop.append([k] + [repr(getattr(inst, n)) for n, t in c04.SCHEMA.attrs(k) if n not in refs and t != 'unique_id'])
    if isinstance(value, xtuml.Class):
        value = 'instance'
    elif not isinstance(value, (bool, int, float, str, type(None))):
        value = 'set(%d)' % len(list(value))
    return ['returned', repr(value), pop]


def differential_only(ctx, prog, tier):
    '''Programs outside the reference's domain (ill-typed, erroneous): the renderings must still behave alike.'''
    p = A.print_program(list(prog))
    kinds = sorted(set(t.kw for t in p.toks if t.kw))
    base = real_outcome(A.assemble(p, A.Layout())[0])
    if base == ['timeout']:
        return
    last = A.print_program([prog[-1]])
    rs = [dict((k, 'upper') for k in kinds)] + [{k: 'upper'} for k in sorted(set(t.kw for t in last.toks if t.kw))]
    for r in rs:
        ctx.count('interpret_runs')
        ctx.count('differential_only_runs')
        text = A.assemble(p, layout_for(r))[0]
        got = real_outcome(text)
        if got != base:
            ctx.violation('c08:interpret:differs-from-lower-case', dict(kind='interpret-diff', prog=prog, rendering=r),
                          '%r behaves differently from its lower-case rendering: %s vs %s' % (text, got[:2], base[:2]), base, got)
        else:
            ctx.count('traces')


# ---------------------------------------------------------------------------
# bodies of instance operations (self, param): the renderings must behave alike (differential, no reference needed)
# ---------------------------------------------------------------------------

def operation_bodies():
    V, I, B = c04.V, c04.I, c04.B
    SELF = ('self',)
    SF = lambda n: ('field', SELF, n)
    P = lambda n: ('param', n)
    return [
        [('delete', 'self'), ('return', I(1))],
        [('return', B('+', SF('N'), P('k')))],
        [c04.ASG(SF('N'), B('+', P('k'), I(3))), ('return', SF('N'))],
        [('selfrom', 'many', 'as_', 'A', None, True),
         ('foreach', 'a', 'as_', [c04.IF(B('==', V('a'), SELF), [('return', I(7))])], True), ('return', I(0))],
        [c04.IF(('un', 'not_empty', SELF), [('return', ('un', 'cardinality', SELF))]), ('return', I(0))],
        [('create', 'n', 'A'), c04.ASG(('field', V('n'), 'N'), SF('N')), ('delete', 'self'), ('return', ('field', V('n'), 'N'))],
        [c04.ASG(V('me'), SELF), ('return', ('field', V('me'), 'N'))],
    ] + effect_bodies()


def effect_bodies():
    '''(round 11, C08-21) keyword operators whose operands have an effect when evaluated: the operation calls itself with k == 0, which
    adds one to self.N and returns 0; every spelling must evaluate each operand as often as the lower-case one does.'''
    V, I, B = c04.V, c04.I, c04.B
    SELF = ('self',)
    SF = lambda n: ('field', SELF, n)
    bump = [c04.IF(B('==', ('param', 'k'), I(0)), [c04.ASG(SF('N'), B('+', SF('N'), I(1))), ('return', I(0))])]
    call = ('icall', SELF, 'op', [('k', I(0))])
    zero = B('==', call, I(0))
    out = []
    for e in (('un', 'not', call), ('un', 'empty', call), ('un', 'not_empty', call), ('un', 'not', ('un', 'not', call)),
              B('and', zero, zero), B('or', zero, zero), B('and', B('or', zero, zero), ('un', 'not', call)),
              ('un', 'not', B('and', zero, zero))):
        out.append(bump + [c04.ASG(V('f'), e), ('return', SF('N'))])
        out.append(bump + [c04.IF(e, [c04.ASG(SF('N'), B('+', SF('N'), I(10)))]), ('return', SF('N'))])
    return out


def operation_outcome(text):
    import xtuml
    from bridgepoint import ooaofooa
    from mc.props import c15
    bp = c15.build_bp_model(dict((s, 0) for s in c15.SLOTS))
    o_tfr = bp.select_any('O_TFR', xtuml.where_eq(Name='op'))
    o_tfr.Action_Semantics_internal = text
    dom = ooaofooa.mk_component(bp)
    insts = [dom.new('A', N=2), dom.new('A', N=0)]
    try:
        with core.time_limit(10.0):
            value = insts[0].op(k=1)
    except core.Timeout:
        return ['timeout']
    except Exception as e:
        return ['raised', type(e).__name__]
    return ['returned', repr(value), [[i.N, i.Name] for i in dom.select_many('A')]]


def operation_task(ctx, stmts):
    p = A.print_program(stmts)
    kinds = sorted(set(t.kw for t in p.toks if t.kw))
    base = operation_outcome(A.assemble(p, A.Layout())[0])
    if base[0] == 'returned':
        ctx.count('operation_bodies_returning')
        ctx.distinct('operation_results', base[1])
    rs = [dict((k, st) for k in kinds) for st in STYLES[1:]] + [{k: st} for k in kinds for st in ('upper', 'cap')]
    for r in rs:
        ctx.count('interpret_runs')
        ctx.count('operation_runs')
        text = A.assemble(p, layout_for(r))[0]
        got = operation_outcome(text)
        if got != base:
            ctx.violation('c08:interpret:operation-differs-from-lower-case', dict(kind='operation', stmts=stmts, rendering=r),
                          'operation body %r behaves differently from its lower-case rendering: %s vs %s' % (text, got[:2], base[:2]),
                          base, got)
        else:
            ctx.count('traces')
            ctx.distinct('nontrivial', ('operation', repr(stmts), repr(sorted(r.items()))))


def prebuild_available():
    try:
        from mc.refs import prebuildhost      # noqa
        return hasattr(prebuildhost, 'canonical_prebuild_dump')
    except Exception:
        return False


def prebuild_task(ctx, task):
    tier, items = task
    from mc.refs import prebuildhost as H
    for item in items:
        name, stmts = item[0], item[1]
        home = item[2] if len(item) > 2 else 'function'
        p = A.print_program(stmts)
        kinds = set(t.kw for t in p.toks if t.kw)
        base_text, _ = A.assemble(p, A.Layout())
        try:
            with core.time_limit(30):
                base = H.canonical_prebuild_dump(base_text, home=home)
        except Exception as e:
            ctx.count('prebuild_skipped')      # not a supported / name-resolved program for the host
            continue
        rs = [dict((k, st) for k in kinds) for st in STYLES[1:]] + [{k: 'upper'} for k in sorted(kinds)]
        if len(item) > 3 and item[3] == 'per-occurrence':
            # every occurrence of a keyword that is handed on as written, one at a time, upper and capitalised
            from_tok = 0
            occs = [o for o in keyword_occurrences(p, from_tok) if o.split('#')[0] in H.SPELLED_THROUGH]
            rs += [{o: st} for o in occs for st in ('upper', 'cap')]
            if len(occs) <= 4:
                rs += [{o1: s1, o2: s2} for o1, o2 in itertools.combinations(occs, 2) for s1 in ('upper',) for s2 in ('upper', 'cap')]
            ctx.count('prebuild_per_occurrence_programs')
        for r in rs:
            text, _ = A.assemble(p, layout_for(r))
            ctx.count('prebuild_runs')
            case = dict(kind='prebuild', name=name, stmts=stmts, rendering=r, home=home, mode=item[3] if len(item) > 3 else None)
            try:
                with core.time_limit(30):
                    got = H.canonical_prebuild_dump(text, home=home)
            except Exception as e:
                ctx.violation('c08:prebuild:%s' % type(e).__name__, case,
                              'prebuild of %r fails although its lower-case rendering is translated: %s' % (text, e), None, str(e))
                continue
            if got != base:
                diff = [(a, b) for a, b in zip(base, got) if a != b][:3]
                ctx.violation('c08:prebuild:instances', case, 'prebuilt instances differ between %r and its lower-case rendering: %s'
                              % (text, diff), None, diff)
                continue
            ctx.count('traces')
            ctx.distinct('nontrivial', ('prebuild', name, repr(stmts), repr(sorted(r.items()))))


def parse_any(ctx, task):
    if task[0] == 'nested':
        nested_parse_task(ctx, task[1:])
    else:
        parse_task(ctx, task)


def chunks(seq, n):
    return [seq[i:i + n] for i in range(0, len(seq), n)]


def parse_corpus():
    progs = list(F.statement_family())
    for e in F.LEAVES_ALL:
        progs.append(('leaf', [('assign', ('var', 'x'), e, False)]))
    for e in A.expr_trees(2, ['and', 'or', '+', '<'], ['not', 'empty', 'not_empty', 'cardinality', '-'], [('var', 'a'), ('bool', 'true')]):
        progs.append(('expr', [('assign', ('var', 'x'), e, False)]))
    return progs


def prebuild_corpus(tier='quick'):
    '''Programs that are well-formed and name-resolved in the prebuild host (function home).'''
    from mc.refs import prebuildhost as H
    progs = list(H.prebuild_corpus(tier=tier))
    progs = progs[::3] if tier == 'quick' else progs
    # operands of and/or/not that are not boolean: outside the typed domain of C05, but the renderings must still agree
    V, I, B = c04.V, c04.I, c04.B
    T, Fa = ('bool', 'true'), ('bool', 'false')
    for op in ('and', 'or'):
        progs.append(('loose_int_%s' % op, [c04.ASG(V('i'), I(1)), c04.ASG(V('t'), B(op, V('i'), T))]))
        progs.append(('loose_card_%s' % op, [('selfrom', 'many', 'aset', 'A', None, True),
                                             c04.ASG(V('t'), B(op, ('un', 'cardinality', V('aset')), Fa))]))
        progs.append(('loose_handle_%s' % op, [('selfrom', 'any', 'a', 'A', None, True), c04.ASG(V('t'), B(op, V('a'), T))]))
        progs.append(('loose_right_%s' % op, [c04.ASG(V('i'), I(1)), c04.ASG(V('t'), B(op, T, V('i')))]))
        progs.append(('loose_nested_%s' % op, [c04.ASG(V('i'), I(1)), c04.ASG(V('t'), B('or', B(op, V('i'), V('i')), ('un', 'not', V('i'))))]))
    # self in every position, in the homes that have one
    SELF = ('self',)
    ph = ('t', 'next')
    sel = ('selfrom', 'any', 'o', 'A', None, True)
    for home in ('operation', 'attribute'):
        progs.append(('self_relate', [sel, ('relate', 'self', 'o', 'R2', ph, None)], home))
        progs.append(('self_var_then_relate', [c04.ASG(V('x'), SELF), sel, ('relate', 'self', 'o', 'R2', ph, None)], home))
        progs.append(('self_unrelate', [sel, c04.ASG(V('n'), ('field', SELF, 'Num')), ('unrelate', 'o', 'self', 'R2', ('t', 'prev'), None)], home))
        progs.append(('self_delete', [c04.ASG(V('x'), SELF), ('delete', 'self')], home))
        progs.append(('self_nav', [('selrel', 'many', 'bs', SELF, [('B', 'R1', None)], None), c04.ASG(V('x'), SELF),
                                   ('relate', 'self', 'x', 'R2', ph, None)], home))
    # keyword operators applied to the result of keyword operators, every occurrence varied on its own
    a, aset, t = V('a'), V('aset'), V('t')
    U = lambda op, x: ('un', op, x)
    nested = [U('not', U('empty', a)), U('not', U('not_empty', a)), U('not', U('empty', aset)), U('not', U('not_empty', aset)),
              U('not', ('grp', U('empty', a))), U('not', U('not', t)), U('not', U('not', U('empty', a))),
              U('not', B('==', U('cardinality', aset), I(0))), B('==', U('cardinality', aset), U('cardinality', a)),
              B('and', U('not', U('empty', a)), U('not_empty', aset)), B('or', U('not', t), U('not', U('not_empty', a))),
              U('not', B('and', U('empty', a), U('empty', aset)))]
    for n, e in enumerate(nested):
        r = H.complete(H.tolist([c04.ASG(V('z'), e)]), 'function')
        if r is not None:
            progs.append(('nested_%d' % n, H.tolist(r[0]), 'function', 'per-occurrence'))
    for n, e in enumerate(nested[:4]):
        for stmts in ([('if', e, [c04.ASG(V('z'), I(1))], [(U('not', e), [])], None, [False, False])],
                      [('selfrom', 'many', 'n', 'A', B('and', e, U('not', U('empty', ('selected',)))), True)],
                      [('return', e)]):
            r = H.complete(H.tolist(stmts), 'function')
            if r is not None:
                progs.append(('nested_ctx_%d' % n, H.tolist(r[0]), 'function', 'per-occurrence'))
    return progs


def run(ctx):
    progs = parse_corpus()
    k = ctx.seed % 3
    progs = progs[k:] + progs[:k]
    ctx.pmap(parse_any, [('nested', ctx.tier, c) for c in chunks(nested_operator_programs(), 4)] + [(ctx.tier, c) for c in chunks(progs, 8)])
    ctx.require(ctx.n('nested_parses') >= 2000, 'too few renderings of nested keyword operators (%d)' % ctx.n('nested_parses'))
    corpus = interpret_corpus(ctx.tier)
    # the programs rendered per occurrence have many more renderings each: small chunks, started first
    heavy = [p for p in corpus if has_nested_unary(p[-1])]
    light = [p for p in corpus if not has_nested_unary(p[-1])]
    ctx.pmap(interpret_task, [(ctx.tier, c) for c in chunks(heavy, 2)] + [(ctx.tier, c) for c in chunks(light, 10)])
    ctx.pmap(operation_task, operation_bodies())
    ctx.require(ctx.n('interpret_per_occurrence_programs') >= 10, 'too few interpreted programs with nested keyword operators (%d)'
                % ctx.n('interpret_per_occurrence_programs'))
    ctx.require(ctx.n('operation_bodies_returning') >= 20 and ctx.nd('operation_results') >= 6,
                'too few operation bodies that return a value (%d, %d distinct values)' % (ctx.n('operation_bodies_returning'), ctx.nd('operation_results')))
    ctx.require(ctx.n('operation_runs') >= 50, 'too few operation-body renderings (%d)' % ctx.n('operation_runs'))
    if prebuild_available():
        pc = prebuild_corpus(ctx.tier)
        heavy = [x for x in pc if len(x) > 3]
        light = [x for x in pc if len(x) <= 3]
        ctx.pmap(prebuild_task, [(ctx.tier, [x]) for x in heavy] + [(ctx.tier, c) for c in chunks(light, 6)])
        ctx.require(ctx.n('prebuild_runs') >= 300, 'too few prebuild renderings (%d)' % ctx.n('prebuild_runs'))
        ctx.require(ctx.n('prebuild_per_occurrence_programs') >= 20, 'too few prebuilt programs with nested keyword operators (%d)'
                    % ctx.n('prebuild_per_occurrence_programs'))
    else:
        ctx.notes['prebuild'] = 'prebuild host not available in this revision'
    p = A.print_program(progs[50][1])
    ctx.sample(dict(path='parse', text=A.assemble(p, layout_for(dict((t.kw, 'mixed') for t in p.toks if t.kw)))[0]))
    p = A.print_program(corpus[len(corpus) // 2])
    ctx.sample(dict(path='interpret', text=A.assemble(p, layout_for(dict((t.kw, 'upper') for t in p.toks if t.kw)))[0]))
    ctx.require(ctx.nd('parse_cases') >= 5000, 'too few parse renderings (%d)' % ctx.nd('parse_cases'))
    ctx.require(ctx.n('interpret_runs') >= 1000, 'too few interpreter renderings (%d)' % ctx.n('interpret_runs'))


def replay(ctx, case):
    if case['kind'] == 'parse':
        parse_task(ctx, ('thorough', []))
        # re-run exactly the recorded rendering
        from bridgepoint import oal
        p = A.print_program(case['stmts'])
        text, spans = A.assemble(p, layout_for(case['rendering']))
        try:
            root = oal.parse(text)
        except Exception as e:
            ctx.violation('c08:parse:%s' % type(e).__name__, case, '%r does not parse: %s' % (text, e))
            return
        diffs = A.compare(root, p.expected, text, spans, positions=False, kwfold=True)
        if diffs:
            ctx.violation('c08:parse:tree', case, 'different tree: %s' % diffs[:3])
            return
        ms = []
        manys(root, ms)
        if [m for m in ms if m[0] != (m[1].lower() == 'many')]:
            ctx.violation('c08:parse:many-accessor', case, '.many disagrees')
    elif case['kind'] == 'parse-nested':
        from bridgepoint import oal
        p = A.print_program(case['stmts'])
        base_text, _ = A.assemble(p, A.Layout())
        text, spans = A.assemble(p, layout_for(case['rendering']))
        try:
            base = folded_structure(oal.parse(base_text))
        except Exception as e:
            ctx.violation('c08:parse-nested:lower-case:%s' % type(e).__name__, case, '%r does not parse: %s' % (base_text, e))
            return
        try:
            root = oal.parse(text)
        except Exception as e:
            ctx.violation('c08:parse-nested:%s' % type(e).__name__, case, '%r does not parse: %s' % (text, e))
            return
        if folded_structure(root) != base:
            ctx.violation('c08:parse-nested:tree-differs-from-lower-case', case, '%r parses to another tree than %r' % (text, base_text))
            return
        diffs = A.compare(root, p.expected, text, spans, positions=False, kwfold=True)
        if diffs:
            ctx.violation('c08:parse-nested:tree', case, 'different tree: %s' % diffs[:3])
    elif case['kind'] == 'interpret':
        c04.check_program(ctx, case['prog'], 'case', layout=layout_for(case['rendering']), sigprefix='c08:interpret',
                          extra_case=dict(kind='interpret', rendering=case['rendering']))
    elif case['kind'] == 'operation':
        p = A.print_program(case['stmts'])
        base = operation_outcome(A.assemble(p, A.Layout())[0])
        got = operation_outcome(A.assemble(p, layout_for(case['rendering']))[0])
        if got != base:
            ctx.violation('c08:interpret:operation-differs-from-lower-case', case, 'behaves differently from its lower-case rendering', base, got)
    elif case['kind'] == 'interpret-diff':
        p = A.print_program(list(case['prog']))
        base = real_outcome(A.assemble(p, A.Layout())[0])
        got = real_outcome(A.assemble(p, layout_for(case['rendering']))[0])
        if got != base:
            ctx.violation('c08:interpret:differs-from-lower-case', case, 'behaves differently from its lower-case rendering', base, got)
    elif case['kind'] == 'prebuild':
        prebuild_task(ctx, ('thorough', [(case['name'], case['stmts'], case.get('home', 'function'), case.get('mode'))]))


def coverage(ctx):
    return dict(
        states=ctx.nd('parse_cases') + ctx.n('interpret_runs') + ctx.n('prebuild_runs'),
        transitions=ctx.n('parses') + ctx.n('interpret_runs') + ctx.n('prebuild_runs'),
        traces_validated_against_impl=ctx.n('traces'),
        evaluations=ctx.n('parses') + ctx.n('interpret_runs') + ctx.n('prebuild_runs'),
        parse_renderings=ctx.n('parses'), interpret_renderings=ctx.n('interpret_runs'), prebuild_renderings=ctx.n('prebuild_runs'),
        prebuild_skipped=ctx.n('prebuild_skipped'), prebuild_note=ctx.notes.get('prebuild'),
        distinct_nontrivial=ctx.nd('nontrivial'),
        rule='every program of the corpus under every rendering of the bound; non-trivial = distinct (path, program, rendering) with '
             'at least one keyword kind not in lower case that was compared successfully',
        nested_operator_parse_renderings=ctx.n('nested_parses'),
        interpret_per_occurrence_programs=ctx.n('interpret_per_occurrence_programs'),
        prebuild_per_occurrence_programs=ctx.n('prebuild_per_occurrence_programs'),
        bounds=dict(styles=STYLES, full_product_up_to_kinds=3 if ctx.quick else 5, otherwise='uniform + single + double deviations',
                    nested_keyword_operators=dict(unary=KW_UNARY, binary=['and', '=='], expression_depth=3, programs=len(nested_operator_programs()),
                                                  per_occurrence_styles=STYLES[1:3] if ctx.quick else STYLES[1:],
                                                  full_product_up_to_occurrences=3 if ctx.quick else 4)),
        exhaustive=not ctx.caps_hit,
    )
