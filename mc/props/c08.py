'''
C08 -- OAL keywords are case-insensitive in parsing, execution and prebuild.

E3 on top of the C07 / C04 / C05 generators: every program is rendered with
every keyword *kind* independently in lower, UPPER, Capitalised or mIxEd case
(full product for programs with few kinds, all single and double deviations
plus the uniform renderings otherwise) and must parse to the same tree,
compute the same result and final model, and prebuild to the same instances.
'''
import itertools

from mc import core
from mc.refs import oalast as A
from mc.refs import oalfam as F
from mc.props import c04

NEEDS_BRIDGEPOINT = True
BUDGET_S = {'quick': 300, 'thorough': 2400}
ASSUMPTIONS = [
    'fields that carry the keyword text itself (operator, cardinality, boolean literal, self as instance name) are compared '
    'case-insensitively; the normalising accessor .many exactly',
    'prebuilt instances are compared apart from the recorded source text (labels and the action text itself)',
]
STYLES = ['lower', 'upper', 'cap', 'mixed']


def renderings(kinds, full_limit):
    '''List of dict kind->style.'''
    kinds = sorted(kinds)
    out = []
    if len(kinds) <= full_limit:
        for combo in itertools.product(STYLES, repeat=len(kinds)):
            out.append(dict(zip(kinds, combo)))
        return out
    for st in STYLES:
        out.append(dict((k, st) for k in kinds))
    for k in kinds:
        for st in STYLES[1:]:
            out.append({k: st})
    for k1, k2 in itertools.combinations(kinds, 2):
        for s1 in ('upper', 'mixed'):
            for s2 in ('upper', 'cap'):
                out.append({k1: s1, k2: s2})
    return out


def layout_for(r):
    return A.Layout(kwcase=lambda kind, n: r.get(kind, 'lower'))


def manys(node, out):
    '''Collect (.many, cardinality) of every select node of a real tree.'''
    if node is None or isinstance(node, (str, int, float)):
        return
    if hasattr(node, 'many') and hasattr(node, 'cardinality'):
        out.append((node.many, node.cardinality))
    for v in vars(node).values():
        if isinstance(v, list):
            for x in v:
                manys(x, out)
        elif hasattr(v, '__dict__'):
            manys(v, out)


def parse_task(ctx, task):
    tier, items = task
    from bridgepoint import oal
    limit = 3 if tier == 'quick' else 5
    for name, stmts in items:
        p = A.print_program(stmts)
        kinds = set(t.kw for t in p.toks if t.kw)
        if not kinds:
            continue
        for r in renderings(kinds, limit):
            text, spans = A.assemble(p, layout_for(r))
            ctx.count('parses')
            case = dict(kind='parse', name=name, stmts=stmts, rendering=r)
            try:
                root = oal.parse(text)
            except Exception as e:
                ctx.violation('c08:parse:%s' % type(e).__name__, case, '%r does not parse although its lower-case rendering does: %s' % (text, e),
                              'same tree as lower case', type(e).__name__,
                              unit_test='from bridgepoint import oal\noal.parse(%r)' % text)
                continue
            diffs = A.compare(root, p.expected, text, spans, positions=False, kwfold=True)
            if diffs:
                ctx.violation('c08:parse:tree', case, '%r parses to a different tree than its lower-case rendering: %s' % (text, diffs[:3]),
                              None, diffs[:5], unit_test='from bridgepoint import oal\noal.parse(%r)' % text)
                continue
            ms = []
            manys(root, ms)
            wrong = [m for m in ms if m[0] != (m[1].lower() == 'many')]
            if wrong:
                ctx.violation('c08:parse:many-accessor', case, '%r: select node .many disagrees with its cardinality %r' % (text, wrong), None, wrong)
                continue
            ctx.count('traces')
            ctx.distinct('parse_cases', (name, repr(stmts), repr(sorted(r.items()))))
            if any(v != 'lower' for v in r.values()):
                ctx.distinct('nontrivial', ('parse', name, repr(stmts), repr(sorted(r.items()))))


def interpret_corpus(tier):
    '''Programs of the C04 families: every setup followed by every menu statement.'''
    out = []
    for setup in c04.SETUPS:
        _, ref, env = c04.run_reference(setup)
        for s in c04.menu(env, ref, tier, core_only=False):
            out.append(setup + [s])
    # programs whose right operand of and/or fails or has an effect when evaluated (outside the reference's domain:
    # only the renderings are compared with each other)
    V, I, B, U, F_ = c04.V, c04.I, c04.B, c04.U, c04.F
    setup = c04.SETUPS[1]
    for op, left in (('and', c04.FALSE), ('or', c04.TRUE), ('and', c04.TRUE), ('or', c04.FALSE)):
        out.append(setup + [('selfrom', 'any', 'nobody', 'A', B('==', ('field', ('selected',), 'K'), I(99)), True),
                            c04.ASG(V('f'), B(op, left, B('==', F_('nobody', 'N'), I(1))))])
        out.append(setup + [c04.ASG(V('f'), B(op, left, B('==', B('/', I(1), I(0)), I(1))))])
        out.append(setup + [c04.ASG(V('f'), B(op, V('i'), c04.TRUE))])
    return out


def interpret_task(ctx, task):
    tier, progs = task
    for prog in progs:
        try:
            _, _, env = c04.run_reference(prog)
        except c04.E.OutOfDomain as e:
            if 'fuel' not in str(e):
                differential_only(ctx, prog, tier)
            continue
        probes = c04.probe_statements(env) if env is not None else []
        p = A.print_program(list(prog) + probes)
        kinds = set(t.kw for t in p.toks if t.kw)
        rs = [dict((k, st) for k in kinds) for st in STYLES[1:]]
        last = A.print_program([prog[-1]])
        for k in sorted(set(t.kw for t in last.toks if t.kw)):
            rs.append({k: 'upper'})
            if tier == 'thorough':
                rs.append({k: 'mixed'})
        for r in rs:
            ctx.count('interpret_runs')
            status, _ = c04.check_program(ctx, prog, 'case', layout=layout_for(r), sigprefix='c08:interpret',
                                          extra_case=dict(kind='interpret', rendering=r))
            if status == 'ok':
                ctx.distinct('nontrivial', ('interpret', repr(prog), repr(sorted(r.items()))))


def real_outcome(text):
    '''What the real interpreter does with a program the reference does not define: value + population, or the exception class.'''
    import xtuml
    from bridgepoint import ooaofooa, interpret
    from mc.refs import relmodel
    dom = relmodel.build_real(xtuml, c04.SCHEMA, xtuml.IntegerGenerator(), factory=ooaofooa.Domain)
    try:
        with core.time_limit(10.0):
            value = interpret.run_function(dom, 'c08', text, {})
    except core.Timeout:
        return ['timeout']
    except Exception as e:
        return ['raised', type(e).__name__]
    pop = []
    for k in c04.SCHEMA.kinds():
        refs = c04.SCHEMA.referentials(k)
        for inst in dom.select_many(k):
            pop.append([k] + [repr(getattr(inst, n)) for n, t in c04.SCHEMA.attrs(k) if n not in refs and t != 'unique_id'])
    if isinstance(value, xtuml.Class):
        value = 'instance'
    elif not isinstance(value, (bool, int, float, str, type(None))):
        value = 'set(%d)' % len(list(value))
    return ['returned', repr(value), pop]


def differential_only(ctx, prog, tier):
    '''Programs outside the reference's domain (ill-typed, erroneous): the renderings must still behave alike.'''
    p = A.print_program(list(prog))
    kinds = sorted(set(t.kw for t in p.toks if t.kw))
    base = real_outcome(A.assemble(p, A.Layout())[0])
    if base == ['timeout']:
        return
    last = A.print_program([prog[-1]])
    rs = [dict((k, 'upper') for k in kinds)] + [{k: 'upper'} for k in sorted(set(t.kw for t in last.toks if t.kw))]
    for r in rs:
        ctx.count('interpret_runs')
        ctx.count('differential_only_runs')
        text = A.assemble(p, layout_for(r))[0]
        got = real_outcome(text)
        if got != base:
            ctx.violation('c08:interpret:differs-from-lower-case', dict(kind='interpret-diff', prog=prog, rendering=r),
                          '%r behaves differently from its lower-case rendering: %s vs %s' % (text, got[:2], base[:2]), base, got)
        else:
            ctx.count('traces')


# ---------------------------------------------------------------------------
# bodies of instance operations (self, param): the renderings must behave alike (differential, no reference needed)
# ---------------------------------------------------------------------------

def operation_bodies():
    V, I, B = c04.V, c04.I, c04.B
    SELF = ('self',)
    SF = lambda n: ('field', SELF, n)
    P = lambda n: ('param', n)
    return [
        [('delete', 'self'), ('return', I(1))],
        [('return', B('+', SF('N'), P('k')))],
        [c04.ASG(SF('N'), B('+', P('k'), I(3))), ('return', SF('N'))],
        [('selfrom', 'many', 'as_', 'A', None, True),
         ('foreach', 'a', 'as_', [c04.IF(B('==', V('a'), SELF), [('return', I(7))])], True), ('return', I(0))],
        [c04.IF(('un', 'not_empty', SELF), [('return', ('un', 'cardinality', SELF))]), ('return', I(0))],
        [('create', 'n', 'A'), c04.ASG(('field', V('n'), 'N'), SF('N')), ('delete', 'self'), ('return', ('field', V('n'), 'N'))],
        [c04.ASG(V('me'), SELF), ('return', ('field', V('me'), 'N'))],
    ]


def operation_outcome(text):
    import xtuml
    from bridgepoint import ooaofooa
    from mc.props import c15
    bp = c15.build_bp_model(dict((s, 0) for s in c15.SLOTS))
    o_tfr = bp.select_any('O_TFR', xtuml.where_eq(Name='op'))
    o_tfr.Action_Semantics_internal = text
    dom = ooaofooa.mk_component(bp)
    insts = [dom.new('A', N=2), dom.new('A', N=0)]
    try:
        with core.time_limit(10.0):
            value = insts[0].op(k=1)
    except core.Timeout:
        return ['timeout']
    except Exception as e:
        return ['raised', type(e).__name__]
    return ['returned', repr(value), [[i.N, i.Name] for i in dom.select_many('A')]]


def operation_task(ctx, stmts):
    p = A.print_program(stmts)
    kinds = sorted(set(t.kw for t in p.toks if t.kw))
    base = operation_outcome(A.assemble(p, A.Layout())[0])
    rs = [dict((k, st) for k in kinds) for st in STYLES[1:]] + [{k: st} for k in kinds for st in ('upper', 'cap')]
    for r in rs:
        ctx.count('interpret_runs')
        ctx.count('operation_runs')
        text = A.assemble(p, layout_for(r))[0]
        got = operation_outcome(text)
        if got != base:
            ctx.violation('c08:interpret:operation-differs-from-lower-case', dict(kind='operation', stmts=stmts, rendering=r),
                          'operation body %r behaves differently from its lower-case rendering: %s vs %s' % (text, got[:2], base[:2]),
                          base, got)
        else:
            ctx.count('traces')
            ctx.distinct('nontrivial', ('operation', repr(stmts), repr(sorted(r.items()))))


def prebuild_available():
    try:
        from mc.refs import prebuildhost      # noqa
        return hasattr(prebuildhost, 'canonical_prebuild_dump')
    except Exception:
        return False


def prebuild_task(ctx, task):
    tier, items = task
    from mc.refs import prebuildhost as H
    for item in items:
        name, stmts = item[0], item[1]
        home = item[2] if len(item) > 2 else 'function'
        p = A.print_program(stmts)
        kinds = set(t.kw for t in p.toks if t.kw)
        base_text, _ = A.assemble(p, A.Layout())
        try:
            with core.time_limit(30):
                base = H.canonical_prebuild_dump(base_text, home=home)
        except Exception as e:
            ctx.count('prebuild_skipped')      # not a supported / name-resolved program for the host
            continue
        rs = [dict((k, st) for k in kinds) for st in STYLES[1:]] + [{k: 'upper'} for k in sorted(kinds)]
        for r in rs:
            text, _ = A.assemble(p, layout_for(r))
            ctx.count('prebuild_runs')
            case = dict(kind='prebuild', name=name, stmts=stmts, rendering=r, home=home)
            try:
                with core.time_limit(30):
                    got = H.canonical_prebuild_dump(text, home=home)
            except Exception as e:
                ctx.violation('c08:prebuild:%s' % type(e).__name__, case,
                              'prebuild of %r fails although its lower-case rendering is translated: %s' % (text, e), None, str(e))
                continue
            if got != base:
                diff = [(a, b) for a, b in zip(base, got) if a != b][:3]
                ctx.violation('c08:prebuild:instances', case, 'prebuilt instances differ between %r and its lower-case rendering: %s'
                              % (text, diff), None, diff)
                continue
            ctx.count('traces')
            ctx.distinct('nontrivial', ('prebuild', name, repr(stmts), repr(sorted(r.items()))))


def chunks(seq, n):
    return [seq[i:i + n] for i in range(0, len(seq), n)]


def parse_corpus():
    progs = list(F.statement_family())
    for e in F.LEAVES_ALL:
        progs.append(('leaf', [('assign', ('var', 'x'), e, False)]))
    for e in A.expr_trees(2, ['and', 'or', '+', '<'], ['not', 'empty', 'not_empty', 'cardinality', '-'], [('var', 'a'), ('bool', 'true')]):
        progs.append(('expr', [('assign', ('var', 'x'), e, False)]))
    return progs


def prebuild_corpus(tier='quick'):
    '''Programs that are well-formed and name-resolved in the prebuild host (function home).'''
    from mc.refs import prebuildhost as H
    progs = list(H.prebuild_corpus(tier=tier))
    progs = progs[::3] if tier == 'quick' else progs
    # operands of and/or/not that are not boolean: outside the typed domain of C05, but the renderings must still agree
    V, I, B = c04.V, c04.I, c04.B
    T, Fa = ('bool', 'true'), ('bool', 'false')
    for op in ('and', 'or'):
        progs.append(('loose_int_%s' % op, [c04.ASG(V('i'), I(1)), c04.ASG(V('t'), B(op, V('i'), T))]))
        progs.append(('loose_card_%s' % op, [('selfrom', 'many', 'aset', 'A', None, True),
                                             c04.ASG(V('t'), B(op, ('un', 'cardinality', V('aset')), Fa))]))
        progs.append(('loose_handle_%s' % op, [('selfrom', 'any', 'a', 'A', None, True), c04.ASG(V('t'), B(op, V('a'), T))]))
        progs.append(('loose_right_%s' % op, [c04.ASG(V('i'), I(1)), c04.ASG(V('t'), B(op, T, V('i')))]))
        progs.append(('loose_nested_%s' % op, [c04.ASG(V('i'), I(1)), c04.ASG(V('t'), B('or', B(op, V('i'), V('i')), ('un', 'not', V('i'))))]))
    # self in every position, in the homes that have one
    SELF = ('self',)
    ph = ('t', 'next')
    sel = ('selfrom', 'any', 'o', 'A', None, True)
    for home in ('operation', 'attribute'):
        progs.append(('self_relate', [sel, ('relate', 'self', 'o', 'R2', ph, None)], home))
        progs.append(('self_var_then_relate', [c04.ASG(V('x'), SELF), sel, ('relate', 'self', 'o', 'R2', ph, None)], home))
        progs.append(('self_unrelate', [sel, c04.ASG(V('n'), ('field', SELF, 'Num')), ('unrelate', 'o', 'self', 'R2', ('t', 'prev'), None)], home))
        progs.append(('self_delete', [c04.ASG(V('x'), SELF), ('delete', 'self')], home))
        progs.append(('self_nav', [('selrel', 'many', 'bs', SELF, [('B', 'R1', None)], None), c04.ASG(V('x'), SELF),
                                   ('relate', 'self', 'x', 'R2', ph, None)], home))
    return progs


def run(ctx):
    progs = parse_corpus()
    k = ctx.seed % 3
    progs = progs[k:] + progs[:k]
    ctx.pmap(parse_task, [(ctx.tier, c) for c in chunks(progs, 8)])
    corpus = interpret_corpus(ctx.tier)
    ctx.pmap(interpret_task, [(ctx.tier, c) for c in chunks(corpus, 10)])
    ctx.pmap(operation_task, operation_bodies())
    ctx.require(ctx.n('operation_runs') >= 50, 'too few operation-body renderings (%d)' % ctx.n('operation_runs'))
    if prebuild_available():
        ctx.pmap(prebuild_task, [(ctx.tier, c) for c in chunks(prebuild_corpus(ctx.tier), 6)])
        ctx.require(ctx.n('prebuild_runs') >= 300, 'too few prebuild renderings (%d)' % ctx.n('prebuild_runs'))
    else:
        ctx.notes['prebuild'] = 'prebuild host not available in this revision'
    p = A.print_program(progs[50][1])
    ctx.sample(dict(path='parse', text=A.assemble(p, layout_for(dict((t.kw, 'mixed') for t in p.toks if t.kw)))[0]))
    p = A.print_program(corpus[len(corpus) // 2])
    ctx.sample(dict(path='interpret', text=A.assemble(p, layout_for(dict((t.kw, 'upper') for t in p.toks if t.kw)))[0]))
    ctx.require(ctx.nd('parse_cases') >= 5000, 'too few parse renderings (%d)' % ctx.nd('parse_cases'))
    ctx.require(ctx.n('interpret_runs') >= 1000, 'too few interpreter renderings (%d)' % ctx.n('interpret_runs'))


def replay(ctx, case):
    if case['kind'] == 'parse':
        parse_task(ctx, ('thorough', []))
        # re-run exactly the recorded rendering
        from bridgepoint import oal
        p = A.print_program(case['stmts'])
        text, spans = A.assemble(p, layout_for(case['rendering']))
        try:
            root = oal.parse(text)
        except Exception as e:
            ctx.violation('c08:parse:%s' % type(e).__name__, case, '%r does not parse: %s' % (text, e))
            return
        diffs = A.compare(root, p.expected, text, spans, positions=False, kwfold=True)
        if diffs:
            ctx.violation('c08:parse:tree', case, 'different tree: %s' % diffs[:3])
            return
        ms = []
        manys(root, ms)
        if [m for m in ms if m[0] != (m[1].lower() == 'many')]:
            ctx.violation('c08:parse:many-accessor', case, '.many disagrees')
    elif case['kind'] == 'interpret':
        c04.check_program(ctx, case['prog'], 'case', layout=layout_for(case['rendering']), sigprefix='c08:interpret',
                          extra_case=dict(kind='interpret', rendering=case['rendering']))
    elif case['kind'] == 'operation':
        p = A.print_program(case['stmts'])
        base = operation_outcome(A.assemble(p, A.Layout())[0])
        got = operation_outcome(A.assemble(p, layout_for(case['rendering']))[0])
        if got != base:
            ctx.violation('c08:interpret:operation-differs-from-lower-case', case, 'behaves differently from its lower-case rendering', base, got)
    elif case['kind'] == 'interpret-diff':
        p = A.print_program(list(case['prog']))
        base = real_outcome(A.assemble(p, A.Layout())[0])
        got = real_outcome(A.assemble(p, layout_for(case['rendering']))[0])
        if got != base:
            ctx.violation('c08:interpret:differs-from-lower-case', case, 'behaves differently from its lower-case rendering', base, got)
    elif case['kind'] == 'prebuild':
        prebuild_task(ctx, ('thorough', [(case['name'], case['stmts'], case.get('home', 'function'))]))


def coverage(ctx):
    return dict(
        states=ctx.nd('parse_cases') + ctx.n('interpret_runs') + ctx.n('prebuild_runs'),
        transitions=ctx.n('parses') + ctx.n('interpret_runs') + ctx.n('prebuild_runs'),
        traces_validated_against_impl=ctx.n('traces'),
        evaluations=ctx.n('parses') + ctx.n('interpret_runs') + ctx.n('prebuild_runs'),
        parse_renderings=ctx.n('parses'), interpret_renderings=ctx.n('interpret_runs'), prebuild_renderings=ctx.n('prebuild_runs'),
        prebuild_skipped=ctx.n('prebuild_skipped'), prebuild_note=ctx.notes.get('prebuild'),
        distinct_nontrivial=ctx.nd('nontrivial'),
        rule='every program of the corpus under every rendering of the bound; non-trivial = distinct (path, program, rendering) with '
             'at least one keyword kind not in lower case that was compared successfully',
        bounds=dict(styles=STYLES, full_product_up_to_kinds=3 if ctx.quick else 5, otherwise='uniform + single + double deviations'),
        exhaustive=not ctx.caps_hit,
    )
