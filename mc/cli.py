'''
./check <ID> [--tier quick|thorough] [--replay FILE]

exit 0: property held on everything explored (KNOWN-FINDING lines may be printed)
exit 1: "VIOLATION property=<id> replay=<path>" printed for each new violation
exit 2: harness error (vacuous run, unreproducible alarm, invalid evidence)
'''
import argparse
import importlib
import json
import os
import sys
import traceback


def main(argv=None):
    ap = argparse.ArgumentParser()
    ap.add_argument('prop')
    ap.add_argument('--tier', default='quick', choices=['quick', 'thorough'])
    ap.add_argument('--replay')
    ap.add_argument('--no-evidence', action='store_true')
    args = ap.parse_args(argv)

    if os.environ.get('PYTHONHASHSEED') != '0':
        os.environ['PYTHONHASHSEED'] = '0'
        os.execv(sys.executable, [sys.executable, '-m', 'mc.cli'] + sys.argv[1:])

    tier = os.environ.get('VERIF_TIER') or args.tier
    if tier not in ('quick', 'thorough'):
        tier = args.tier
    try:
        seed = int(os.environ.get('VERIF_SEED', '0') or 0)
    except ValueError:
        seed = 0
    prop = args.prop.upper()

    from mc import core, bootstrap
    try:
        mod = importlib.import_module('mc.props.' + prop.lower())
    except ImportError:
        traceback.print_exc()
        sys.stderr.write('no check for %s\n' % prop)
        return 2

    try:
        try:
            bootstrap.boot(need_bridgepoint=getattr(mod, 'NEEDS_BRIDGEPOINT', True))
        except SystemExit:
            raise
        except Exception as e:
            # the working tree does not import / its parser tables cannot be generated from its grammar:
            # nothing this property relies on can hold
            ctx = core.Ctx(prop, tier, seed)
            msg = 'the working tree cannot be imported or its parser tables cannot be regenerated from ' \
                  'the grammar: %s: %s' % (type(e).__name__, e)
            v = dict(sig='%s:build' % prop.lower(), case=dict(kind='build'), message=msg, expected='importable packages '
                     'and a parser generated from the grammar', observed=traceback.format_exc()[-1500:], unit_test=None)
            if args.replay:
                print(msg)
                return 1
            path = core.write_replay(prop, v)
            print('VIOLATION property=%s replay=%s' % (prop, path))
            print('  sig: %s' % v['sig'])
            print('  %s' % msg)
            return 1
        ctx = core.Ctx(prop, tier, seed)
        ctx.budget_s = getattr(mod, 'BUDGET_S', {}).get(tier)
        if args.replay:
            with open(args.replay) as f:
                doc = json.load(f)
            if doc['case'].get('kind') == 'whole-run':
                sigs = whole_run_signatures(core.Ctx(prop, doc['case'].get('tier', tier), doc['case'].get('seed', seed)), mod)
                if doc['case']['signature'] in sigs:
                    ctx.violation(doc['case']['signature'], doc['case'], doc.get('message', ''))
            else:
                mod.replay(ctx, doc['case'])
        else:
            mod.run(ctx)
        return finish(ctx, mod, replaying=bool(args.replay),
                      no_evidence=args.no_evidence)
    except core.HarnessError as e:
        sys.stderr.write('HARNESS ERROR: %s\n' % e)
        return 2
    except SystemExit:
        raise
    except BaseException:
        traceback.print_exc()
        sys.stderr.write('HARNESS ERROR: unexpected exception in check %s\n' % prop)
        return 2


def replay_in_child(ctx, mod, v):
    '''Replays one violation in a forked child, so that process-wide state of the code under test left behind by an
    earlier replay (caches, parser state) cannot mask or fake it.  -> True when the same signature shows again.'''
    from mc import core
    r, w = os.pipe()
    pid = os.fork()
    if pid == 0:
        code = 1
        try:
            os.close(r)
            c2 = core.Ctx(ctx.prop, ctx.tier, ctx.seed)
            mod.replay(c2, json.loads(json.dumps(v['case'], default=repr)))
            code = 0 if any(x['sig'] == v['sig'] for x in c2.violations) else 1
        except BaseException:
            if os.environ.get('VERIF_DEBUG'):
                traceback.print_exc()
            code = 1
        finally:
            os._exit(code)
    os.close(w)
    os.close(r)
    _, status = os.waitpid(pid, 0)
    return os.WIFEXITED(status) and os.WEXITSTATUS(status) == 0


def whole_run_signatures(ctx, mod):
    '''Runs the complete exploration once more in a forked child; -> set of violation signatures it reported.'''
    from mc import core
    r, w = os.pipe()
    pid = os.fork()
    if pid == 0:
        try:
            os.close(r)
            c3 = core.Ctx(ctx.prop, ctx.tier, ctx.seed)
            c3.budget_s = getattr(ctx, 'budget_s', None)
            try:
                mod.run(c3)
            except BaseException:
                if os.environ.get('VERIF_DEBUG'):
                    traceback.print_exc()
            data = json.dumps(sorted(set(x['sig'] for x in c3.violations))).encode()
            with os.fdopen(w, 'wb') as f:
                f.write(data)
        finally:
            os._exit(0)
    os.close(w)
    with os.fdopen(r, 'rb') as f:
        data = f.read()
    os.waitpid(pid, 0)
    try:
        return set(json.loads(data.decode() or '[]'))
    except ValueError:
        return set()


def finish(ctx, mod, replaying=False, no_evidence=False):
    from mc import core
    known = core.load_known(ctx.prop)
    known_open = {e['sig']: e for e in known if e.get('status') == 'known'}

    new, seen_known = [], {}
    for v in sorted(ctx.violations, key=lambda v: (v['sig'], v['_size'],
                                                   json.dumps(v['case'], sort_keys=True, default=repr))):
        if v['sig'] in known_open:
            seen_known.setdefault(v['sig'], v)
        else:
            new.append(v)

    # every alarm must reproduce from scratch with the same signature
    confirmed = []
    unreproduced = []
    if not replaying:
        for v in new:
            # (retried: code under test may depend on object addresses, e.g. iteration over a set of instances)
            reproduced = False
            for attempt in range(8):
                junk = [object() for _ in range(1 + 37 * attempt)]   # shift allocation addresses between attempts
                if replay_in_child(ctx, mod, v):
                    reproduced = True
                    break
            if not reproduced:
                unreproduced.append(v)
            else:
                confirmed.append(v)
        if unreproduced:
            # The case alone does not show it.  The outcome may depend on what the process did before (state the code
            # under test keeps between calls); then a second complete exploration from a fresh process shows the same
            # signature again, and the violation is reported with a replay document that asks for the complete run.
            again = whole_run_signatures(ctx, mod) if not confirmed else set()
            lost = []
            for v in unreproduced:
                if v['sig'] in again:
                    v = dict(v, case=dict(kind='whole-run', tier=ctx.tier, seed=ctx.seed, signature=v['sig'], first_seen_in=v['case']),
                             message=v['message'] + '  [depends on the calls made earlier in the process: reproduced by a second '
                             'complete exploration, not by the case alone]')
                    if not any(c['sig'] == v['sig'] and c['case'].get('kind') == 'whole-run' for c in confirmed):
                        confirmed.append(v)
                else:
                    lost.append(v)
            for v in lost:
                # with other violations confirmed the run is decided (exit 1); an alarm that cannot be reproduced is never
                # reported as a violation, and alone it makes the run a harness error
                sys.stderr.write('%s: violation %s did not reproduce%s: %s\n' %
                                 ('note' if confirmed else 'HARNESS ERROR', v['sig'],
                                  '' if confirmed else ', neither alone nor in a second complete run',
                                  json.dumps(v['case'], default=repr)[:2000]))
            if lost and not confirmed:
                return 2
    else:
        confirmed = new

    for sig, v in sorted(seen_known.items()):
        e = known_open[sig]
        print('KNOWN-FINDING: property=%s %s [%s] (%d cases this run)' %
              (ctx.prop, e.get('what', sig), e.get('id', sig), ctx.vio_counts.get(sig, 1)))

    if not confirmed and not replaying:
        bad = [m for ok, m in ctx.requirements if not ok]
        if bad and any('time budget' in c for c in ctx.caps_hit):
            # the exploration was cut short by its (generous) wall-clock budget, e.g. on an overloaded machine: what was
            # explored held; the evidence says exhaustive=false, lists the cap and the guards that could not be met
            for m in bad:
                sys.stderr.write('note: run cut short by its time budget; guard not met: %s\n' % m)
            ctx.notes['guards_not_met_after_time_cap'] = bad
        elif bad:
            for m in bad:
                sys.stderr.write('HARNESS ERROR: vacuity guard failed: %s\n' % m)
            return 2

    if not replaying and not no_evidence:
        cov = mod.coverage(ctx)
        cov.setdefault('known_findings_seen', sorted(seen_known))
        cov.setdefault('violation_signatures', {k: n for k, n in sorted(ctx.vio_counts.items())})
        core.write_evidence(ctx, cov, getattr(mod, 'ASSUMPTIONS', []), len(confirmed))

    for v in confirmed:
        path = core.write_replay(ctx.prop, v)
        print('VIOLATION property=%s replay=%s' % (ctx.prop, path))
        print('  sig: %s' % v['sig'])
        print('  %s' % v['message'])
    summary(ctx, mod)
    return 1 if confirmed else 0


def summary(ctx, mod):
    keys = sorted(ctx.counts)
    print('%s tier=%s seed=%d wall=%.1fs %s' % (
        ctx.prop, ctx.tier, ctx.seed, ctx.elapsed(),
        ' '.join('%s=%d' % (k, ctx.counts[k]) for k in keys)))
    if ctx.sets:
        print('  distinct: ' + ' '.join('%s=%d' % (k, len(s)) for k, s in sorted(ctx.sets.items())))
    if ctx.caps_hit:
        print('  caps hit: ' + '; '.join(ctx.caps_hit))


if __name__ == '__main__':
    sys.exit(main())
