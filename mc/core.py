'''
Shared run context: counters, distinct-outcome bookkeeping, violations,
known findings, evidence files, replay files, fork-based worker pool.
'''
import hashlib
import json
import multiprocessing
import os
import signal
import subprocess
import sys
import time
import traceback

VERIF = os.path.dirname(os.path.dirname(os.path.abspath(__file__)))
NCPU = int(os.environ.get('VERIF_JOBS', '0')) or min(16, os.cpu_count() or 1)
MAX_VIOLATIONS_PER_SIG = 5


class HarnessError(Exception):
    pass


class Timeout(BaseException):
    '''Raised inside the code under test when an execution exceeds its limit.'''


class time_limit(object):
    '''with time_limit(2.0): ...  -- raises Timeout in pure-python code.'''

    def __init__(self, seconds):
        self.seconds = seconds

    def _handler(self, signum, frame):
        raise Timeout()

    def __enter__(self):
        self.old = signal.signal(signal.SIGALRM, self._handler)
        signal.setitimer(signal.ITIMER_REAL, self.seconds)
        return self

    def __exit__(self, et, ev, tb):
        signal.setitimer(signal.ITIMER_REAL, 0)
        signal.signal(signal.SIGALRM, self.old)
        return False


def limit_memory(gb=6):
    try:
        import resource
        resource.setrlimit(resource.RLIMIT_AS, (gb << 30, gb << 30))
    except Exception:
        pass


def h64(obj):
    '''Stable 64-bit hash of a JSON-able / repr-able object.'''
    if not isinstance(obj, (str, bytes)):
        obj = repr(obj)
    if isinstance(obj, str):
        obj = obj.encode('utf-8', 'backslashreplace')
    return int.from_bytes(hashlib.blake2b(obj, digest_size=8).digest(), 'big')


class Ctx(object):
    def __init__(self, prop, tier='quick', seed=0):
        self.prop = prop
        self.tier = tier
        self.seed = seed
        self.counts = {}
        self.sets = {}          # name -> set of 64-bit hashes (distinct things)
        self.samples = []
        self.violations = []    # list of dict
        self.vio_counts = {}    # sig -> total
        self.notes = {}
        self.requirements = []  # (ok, message)
        self.t0 = time.time()
        self.caps_hit = []
        self.budget_s = None

    quick = property(lambda self: self.tier == 'quick')
    thorough = property(lambda self: self.tier == 'thorough')

    # ---- bookkeeping -------------------------------------------------
    def count(self, key, n=1):
        self.counts[key] = self.counts.get(key, 0) + n

    def distinct(self, name, obj):
        '''Record obj in the set *name*; return True if it was new.'''
        s = self.sets.setdefault(name, set())
        k = obj if isinstance(obj, int) and not isinstance(obj, bool) and obj > 1 << 40 else h64(obj)
        if k in s:
            return False
        s.add(k)
        return True

    def n(self, key):
        return self.counts.get(key, 0)

    def nd(self, name):
        return len(self.sets.get(name, ()))

    def sample(self, case, limit=5):
        if len(self.samples) < limit:
            self.samples.append(case)

    def elapsed(self):
        return time.time() - self.t0

    def time_left(self):
        if self.budget_s is None:
            return 1e9
        return self.budget_s - self.elapsed()

    def cap(self, what):
        if what not in self.caps_hit:
            self.caps_hit.append(what)

    def require(self, ok, message):
        '''Vacuity guard: evaluated at the end, only if no violation was found.'''
        self.requirements.append((bool(ok), message))

    # ---- violations --------------------------------------------------
    def violation(self, sig, case, message, expected=None, observed=None,
                  unit_test=None):
        '''
        Record a violation. *sig* is the structural signature used to match
        known findings; *case* is the JSON-able minimal case (what --replay
        re-runs).
        '''
        self.vio_counts[sig] = self.vio_counts.get(sig, 0) + 1
        mine = [v for v in self.violations if v['sig'] == sig]
        v = dict(sig=sig, case=case, message=message, expected=expected,
                 observed=observed, unit_test=unit_test)
        size = len(json.dumps(case, sort_keys=True, default=repr))
        v['_size'] = size
        if len(mine) < MAX_VIOLATIONS_PER_SIG:
            self.violations.append(v)
        else:
            worst = max(mine, key=lambda x: x['_size'])
            if size < worst['_size']:
                self.violations.remove(worst)
                self.violations.append(v)

    # ---- merging of worker partials -----------------------------------
    def export(self):
        return dict(counts=self.counts, sets=self.sets, samples=self.samples,
                    violations=self.violations, vio_counts=self.vio_counts,
                    caps=self.caps_hit, req=self.requirements)

    def merge(self, part):
        for k, v in part['counts'].items():
            self.count(k, v)
        for k, s in part['sets'].items():
            self.sets.setdefault(k, set()).update(s)
        for s in part['samples']:
            self.sample(s)
        for v in part['violations']:
            n = self.vio_counts.get(v['sig'], 0)
            self.violation(v['sig'], v['case'], v['message'], v['expected'],
                           v['observed'], v['unit_test'])
            self.vio_counts[v['sig']] = n
        for k, c in part['vio_counts'].items():
            self.vio_counts[k] = self.vio_counts.get(k, 0) + c
        for c in part['caps']:
            self.cap(c)
        self.requirements.extend(part['req'])

    # ---- parallel map --------------------------------------------------
    def pmap(self, fn, tasks, chunk=1, jobs=None, fresh=False):
        '''
        Run fn(subctx, task) for every task in forked workers; counters, sets,
        samples and violations of the sub-contexts are merged into self.
        Returns the list of fn's return values (in task order).
        fresh=True: every chunk runs in a process forked from the parent for it alone, so that process-wide state the
        code under test leaves behind (caches, parser state) cannot flow from one chunk into the next.
        '''
        tasks = list(tasks)
        chunks = [tasks[i:i + chunk] for i in range(0, len(tasks), chunk)]
        jobs = jobs or NCPU
        results = [None] * len(chunks)
        if (jobs <= 1 or len(chunks) <= 1) and not fresh:
            for i, ch in enumerate(chunks):
                _, part, res = _run_chunk((self, fn, i, ch))
                self.merge(part)
                results[i] = res
        else:
            global _POOL_ARGS
            _POOL_ARGS = (self, fn, chunks)
            mp = multiprocessing.get_context('fork')
            with mp.Pool(min(jobs, len(chunks)), initializer=_worker_init, maxtasksperchild=1 if fresh else None) as pool:
                failure = None
                for i, part, res in pool.imap_unordered(_run_chunk_idx,
                                                        range(len(chunks))):
                    if isinstance(part, str):
                        failure = failure or part
                        continue
                    self.merge(part)
                    results[i] = res
                # let the workers leave through the queue sentinel; terminate() at __exit__
                # can lose its SIGTERM under load (worker blocked in sem_wait) and then joins forever
                pool.close()
                pool.join()
                if failure:
                    raise HarnessError('worker failed:\n' + failure)
        out = []
        for r in results:
            out.extend(r)
        return out


_POOL_ARGS = None


def _worker_init():
    # workers must die on SIGTERM (the parent's scratch-cleanup handler is inherited otherwise)
    signal.signal(signal.SIGTERM, signal.SIG_DFL)


def _run_chunk_idx(i):
    parent, fn, chunks = _POOL_ARGS
    limit_memory()
    try:
        return _run_chunk((parent, fn, i, chunks[i]))
    except BaseException:
        return i, traceback.format_exc(), None


def _run_chunk(args):
    parent, fn, i, chunk = args
    sub = Ctx(parent.prop, parent.tier, parent.seed)
    sub.t0 = parent.t0
    sub.budget_s = parent.budget_s
    res = [fn(sub, task) for task in chunk]
    return i, sub.export(), res


# ---------------------------------------------------------------------------
# known findings
# ---------------------------------------------------------------------------

def load_known(prop):
    path = os.path.join(VERIF, 'known_findings.json')
    if not os.path.exists(path):
        return []
    with open(path) as f:
        data = json.load(f)
    return [e for e in data.get('findings', []) if e.get('property') == prop]


# ---------------------------------------------------------------------------
# evidence + replay files
# ---------------------------------------------------------------------------

def write_replay(prop, v):
    d = os.path.join(VERIF, 'replays', prop)
    os.makedirs(d, exist_ok=True)
    body = dict(property=prop, sig=v['sig'], case=v['case'],
                message=v['message'], expected=v['expected'],
                observed=v['observed'], unit_test=v.get('unit_test'))
    text = json.dumps(body, indent=1, sort_keys=True, default=repr)
    sha = hashlib.sha1(text.encode()).hexdigest()[:12]
    path = os.path.join(d, sha + '.json')
    with open(path, 'w') as f:
        f.write(text + '\n')
    return path


def write_evidence(ctx, coverage, assumptions, violations):
    cov = dict(coverage)
    cov.setdefault('samples', ctx.samples[:5])
    cov['caps_hit'] = ctx.caps_hit
    ev = dict(property_id=ctx.prop, tier=ctx.tier, seed=ctx.seed,
              level='model_checking', coverage=cov,
              assumptions=assumptions, wall_s=round(ctx.elapsed(), 3),
              violations=violations)
    d = os.path.join(VERIF, 'evidence')
    os.makedirs(d, exist_ok=True)
    path = os.path.join(d, ctx.prop + '.json')
    tmp = path + '.tmp.%d' % os.getpid()
    with open(tmp, 'w') as f:
        json.dump(ev, f, indent=1, sort_keys=True, default=repr)
        f.write('\n')
    os.replace(tmp, path)
    validate_evidence(path)
    return path


_VALIDATOR = r'''
import json, sys, jsonschema
schema = json.load(open(sys.argv[1])); doc = json.load(open(sys.argv[2]))
jsonschema.Draft202012Validator(schema).validate(doc)
c = doc['coverage']
for k in ('states', 'transitions', 'traces_validated_against_impl', 'samples',
          'evaluations', 'distinct_nontrivial', 'rule', 'exhaustive'):
    assert k in c, 'coverage lacks ' + k
assert c['states'] >= 1 and c['transitions'] >= 1 and len(c['samples']) >= 1
'''


def validate_evidence(path):
    schema = '/root/.vp/EVIDENCE.schema.json'
    if not os.path.exists(schema):
        schema = os.path.join(VERIF, 'mc', 'EVIDENCE.schema.json')
    exe = None
    for cand in ('/opt/veriftools/pyvenv/bin/python', 'python3-vt'):
        if os.path.sep in cand and not os.path.exists(cand):
            continue
        exe = cand
        break
    if exe is None or not os.path.exists(schema):
        return
    try:
        r = subprocess.run([exe, '-c', _VALIDATOR, schema, path],
                           capture_output=True, text=True, timeout=120,
                           env={k: v for k, v in os.environ.items()
                                if not k.startswith('PYTHON')})
    except (OSError, subprocess.TimeoutExpired) as e:
        sys.stderr.write('note: evidence validator unavailable: %s\n' % e)
        return
    if r.returncode != 0:
        raise HarnessError('evidence file %s does not validate:\n%s' %
                           (path, r.stderr[-2000:]))
