'''
Hard-kill execution of a function over a list of items (DESIGN.md 3.5).

Regular-expression matching does not return to the interpreter, so a signal
based time limit cannot interrupt it.  Items are processed in forked worker
processes that announce every item before starting it; the parent kills a
worker whose current item exceeds the budget, records the item as timed out
and restarts a worker on the remaining items.
'''
import json
import os
import select
import signal
import time


def _worker(fn, items, idxs, wfd):
    out = os.fdopen(wfd, 'w', buffering=1)
    for i in idxs:
        out.write('S %d\n' % i)
        out.flush()
        try:
            r = fn(items[i])
        except BaseException as e:      # noqa
            r = ['exception', type(e).__name__, str(e)[:200]]
        out.write('R %d %s\n' % (i, json.dumps(r)))
        out.flush()
    out.write('E\n')
    out.flush()
    os._exit(0)


def run_with_kill(fn, items, budget_s, jobs=16):
    '''
    Returns (results, timed_out): results[i] = fn(items[i]) (JSON-able) or None,
    timed_out = sorted list of indices whose execution exceeded budget_s and
    was killed.
    '''
    n = len(items)
    results = [None] * n
    timed_out = []
    pending = [list(range(k, n, jobs)) for k in range(jobs)]
    pending = [p for p in pending if p]
    workers = {}    # rfd -> dict(pid, todo, current, started, buf)

    def spawn(todo):
        r, w = os.pipe()
        pid = os.fork()
        if pid == 0:
            os.close(r)
            try:
                _worker(fn, items, todo, w)
            finally:
                os._exit(1)
        os.close(w)
        workers[r] = dict(pid=pid, todo=list(todo), current=None, started=time.time(), buf='')

    for todo in pending:
        spawn(todo)
    while workers:
        ready, _, _ = select.select(list(workers), [], [], 0.05)
        now = time.time()
        for r in ready:
            w = workers[r]
            data = os.read(r, 65536).decode('utf-8', 'replace')
            if not data:
                # worker ended (or died): anything unfinished is respawned without the current item
                os.close(r)
                try:
                    os.waitpid(w['pid'], 0)
                except OSError:
                    pass
                del workers[r]
                rest = [i for i in w['todo'] if results[i] is None and i not in timed_out and i != w['current']]
                if w['current'] is not None and results[w['current']] is None and w['current'] not in timed_out:
                    results[w['current']] = ['exception', 'WorkerDied', '']
                if rest:
                    spawn(rest)
                continue
            w['buf'] += data
            while '\n' in w['buf']:
                line, w['buf'] = w['buf'].split('\n', 1)
                if line.startswith('S '):
                    w['current'] = int(line[2:])
                    w['started'] = time.time()
                elif line.startswith('R '):
                    _, i, payload = line.split(' ', 2)
                    results[int(i)] = json.loads(payload)
                    w['current'] = None
                elif line == 'E':
                    w['todo'] = []
        for r, w in list(workers.items()):
            if w['current'] is not None and now - w['started'] > budget_s:
                try:
                    os.kill(w['pid'], signal.SIGKILL)
                    os.waitpid(w['pid'], 0)
                except OSError:
                    pass
                os.close(r)
                del workers[r]
                timed_out.append(w['current'])
                rest = [i for i in w['todo'] if results[i] is None and i not in timed_out]
                if rest:
                    spawn(rest)
    return results, sorted(set(timed_out))


def confirm_slow(fn, item, budget_s, times=2):
    '''True if fn(item) exceeds the budget every time, alone, in a fresh process.'''
    for _ in range(times):
        _, to = run_with_kill(fn, [item], budget_s, jobs=1)
        if not to:
            return False
    return True
