#!/bin/sh
# Nothing to compile: the framework is plain python run by /venv/bin/python.
# Verify the tool chain the checks rely on and run the reference-model self-tests.
cd "$(dirname "$0")" || exit 2
set -e
/venv/bin/python -c "import ply, sys; assert sys.version_info >= (3, 8)"
mkdir -p evidence replays
/venv/bin/python -m mc.selftest
