#!/bin/sh
# usage: tools/seed_recheck.sh <seeded dir name>...   (e.g. C12-2)
# Re-runs the property's quick check against a private copy of /repo with the kept patch applied and refreshes the
# "checks" entry of seeded/<name>/meta.json (the verification of the seed itself -- tests, demo -- is not repeated).
cd /verif || exit 2
for name in "$@"; do
  d=/verif/seeded/$name
  id=${name%%-*}
  tree=$(mktemp -d /tmp/seedre.XXXXXX)
  cp -a /repo/. "$tree"/
  if ! (cd "$tree" && git apply "$d/patch.diff" 2>/dev/null); then echo "$name: patch does not apply"; rm -rf "$tree"; continue; fi
  out=$(mktemp /tmp/seedre.out.XXXXXX)
  VERIF_REPO="$tree" timeout ${SEED_TIMEOUT:-2400} ./check "$id" --no-evidence > "$out" 2>&1; rc=$?
  sigs=$(grep -E '^  sig:' "$out" | sort | uniq -c | sort -rn | head -3 | awk '{print $3}' | tr '\n' ',')
  echo "$name: $id exit=$rc $sigs"
  /venv/bin/python - "$d/meta.json" "$id" "$rc" "$sigs" <<'PY'
import json, sys
p, pid, rc, sigs = sys.argv[1:5]
m = json.load(open(p))
m.setdefault('checks', {})[pid] = dict(exit=int(rc), top_signatures=[s for s in sigs.split(',') if s])
json.dump(m, open(p, 'w'), indent=1)
PY
  rm -rf "$tree" "$out"
done
