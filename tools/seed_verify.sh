#!/bin/sh
# usage: tools/seed_verify.sh <PROPERTY-ID> [check ids to run, default: the property's own]
# Verifies the two seeded changes a fresh sub-agent left in /tmp/seed-<ID>/seed_out and stores the confirmed ones
# under /verif/seeded/<ID>-<n>/ (patch.diff, demo.py, notes.md, meta.json).  Works on private copies of /repo.
id=$1; shift
checks=${*:-$id}
src=${SEED_SRC_PREFIX:-/tmp/seed-}$id/seed_out
off=${SEED_OFFSET:-0}
[ -d "$src" ] || { echo "no $src" >&2; exit 2; }
for n in 1 2; do
  [ -f "$src/change$n.diff" ] || continue
  tree=$(mktemp -d /tmp/seedchk.XXXXXX)
  cp -a /repo/. "$tree"/
  mkdir -p "$tree/seed_out"
  # demos must import the library from the tree they sit in (seed_out/..), not from the agent's worktree
  sed "s#'${SEED_SRC_PREFIX:-/tmp/seed-}$id'#__import__('os').path.dirname(__import__('os').path.dirname(__import__('os').path.abspath(__file__)))#g; s#\"${SEED_SRC_PREFIX:-/tmp/seed-}$id\"#__import__('os').path.dirname(__import__('os').path.dirname(__import__('os').path.abspath(__file__)))#g" "$src/demo$n.py" > "$tree/seed_out/demo$n.stored.py"
  # any other mention of the agent's worktree (e.g. an assertion on xtuml.__file__): placeholder in the stored copy,
  # the private tree's path in the copy that is run
  sed -i "s#${SEED_SRC_PREFIX:-/tmp/seed-}$id#@SEEDTREE@#g" "$tree/seed_out/demo$n.stored.py"
  sed "s#@SEEDTREE@#$tree#g" "$tree/seed_out/demo$n.stored.py" > "$tree/seed_out/demo$n.py"
  # helper modules a demo imports from its own directory
  for h in "$src"/*.py; do case "$(basename "$h")" in demo*.py) ;; *) cp "$h" "$tree/seed_out/";; esac; done
  clean_rc=$( (cd "$tree" && timeout 300 /venv/bin/python seed_out/demo$n.py >/dev/null 2>&1; echo $?) )
  if ! (cd "$tree" && git apply "$src/change$n.diff"); then
    echo "$id-$n: patch does not apply to current /repo"; rm -rf "$tree"; continue
  fi
  if [ -n "$SEED_REGEN" ]; then rm -f "$tree"/bridgepoint/__oal_*tab.py "$tree"/xtuml/__xtuml_*tab.py; (cd "$tree" && /venv/bin/python /verif/tools/regen_tables.py "$tree" >/dev/null 2>&1); fi
  tests=$( (cd "$tree" && timeout 900 /venv/bin/python -m pytest -q -p no:cacheprovider 2>&1 | tail -1) )
  demo_rc=$( (cd "$tree" && timeout 300 /venv/bin/python seed_out/demo$n.py >/dev/null 2>&1; echo $?) )
  results=""
  for c in $checks; do
    out=$(mktemp /tmp/seedchk.out.XXXXXX)
    VERIF_REPO="$tree" timeout ${SEED_TIMEOUT:-1500} ./check "$c" --no-evidence > "$out" 2>&1; rc=$?
    sigs=$(grep -E '^  sig:' "$out" | sort | uniq -c | sort -rn | head -3 | awk '{print $3}' | tr '\n' ',')
    results="$results $c:exit=$rc:$sigs"
    rm -f "$out"
  done
  echo "$id-$((n+off)): demo clean rc=$clean_rc, with change rc=$demo_rc; tests: $tests; checks:$results"
  case "$tests" in *"244 passed"*) ok=1;; *) ok=0;; esac
  if [ "$clean_rc" = 0 ] && [ "$demo_rc" != 0 ] && [ $ok = 1 ]; then
    d=/verif/seeded/$id-$((n+off)); mkdir -p "$d"
    cp "$src/change$n.diff" "$d/patch.diff"; cp "$tree/seed_out/demo$n.stored.py" "$d/demo.py"; cp "$src/notes.md" "$d/notes.md"
    for h in "$src"/*.py; do case "$(basename "$h")" in demo*.py) ;; *) cp "$h" "$d/";; esac; done
    /venv/bin/python - "$d" "$id" "$((n+off))" "$tests" "$clean_rc" "$demo_rc" "$results" <<'EOF'
import json, sys
d, pid, n, tests, clean_rc, demo_rc, results = sys.argv[1:8]
checks = {}
for r in results.split():
    c, rc, sigs = (r.split(':', 2) + [''])[:3]
    checks[c] = dict(exit=int(rc.split('=')[1]), top_signatures=[s for s in sigs.split(',') if s])
import os
summ = {}
try:
    summ = json.load(open('/verif/tools/seed_summaries.json')).get('%s-%s' % (pid, n), {})
except Exception:
    pass
json.dump(dict(property=pid, change=int(n), source='fresh sub-agent given only the property text and a scratch worktree',
               summary=summ.get('summary', 'see notes.md (change %s)' % n),
               needs=summ.get('needs', 'see notes.md (section for change %s)' % n),
               verified=dict(repository_tests_with_change=tests, demo_exit_on_unmodified_tree=int(clean_rc),
                             demo_exit_with_change=int(demo_rc),
                             how='tools/seed_verify.sh: private copy of /repo, git apply patch.diff, pytest, demo, ./check with VERIF_REPO'),
               checks=checks), open(d + '/meta.json', 'w'), indent=1)
EOF
  else
    echo "$id-$((n+off)): NOT kept (demo/tests conditions not met)"
  fi
  rm -rf "$tree"
done
