#!/venv/bin/python
'''tools/mkmut.py <name> <file-in-repo> <old> <new> [<old2> <new2> ...]  -> /verif/mutants/<name>.diff
Works on a private copy of /repo's working tree; /repo itself is never touched.'''
import os
import shutil
import subprocess
import sys
import tempfile
name, path = sys.argv[1:3]
pairs = sys.argv[3:]
assert len(pairs) % 2 == 0 and pairs
tree = tempfile.mkdtemp(prefix='mkmut.', dir='/tmp')
try:
    subprocess.run(['cp', '-a', '/repo/.', tree + '/'], check=True)
    full = os.path.join(tree, path)
    s = open(full).read()
    for old, new in zip(pairs[0::2], pairs[1::2]):
        assert s.count(old) >= 1, 'pattern not found in ' + path + ': ' + old[:40]
        s = s.replace(old, new, 1)
    open(full, 'w').write(s)
    d = subprocess.run(['git', '-C', tree, 'diff'], capture_output=True, text=True).stdout
    open('/verif/mutants/%s.diff' % name, 'w').write(d)
    print(name, len(d.splitlines()), 'lines')
finally:
    shutil.rmtree(tree, ignore_errors=True)
