#!/venv/bin/python
'''tools/mkmut.py <name> <file-in-repo> <old> <new>  -> /verif/mutants/<name>.diff
Works on a private copy of /repo's working tree; /repo itself is never touched.'''
import os
import shutil
import subprocess
import sys
import tempfile
name, path, old, new = sys.argv[1:5]
tree = tempfile.mkdtemp(prefix='mkmut.', dir='/tmp')
try:
    subprocess.run(['cp', '-a', '/repo/.', tree + '/'], check=True)
    full = os.path.join(tree, path)
    s = open(full).read()
    assert s.count(old) >= 1, 'pattern not found in ' + path
    open(full, 'w').write(s.replace(old, new, 1))
    d = subprocess.run(['git', '-C', tree, 'diff'], capture_output=True, text=True).stdout
    open('/verif/mutants/%s.diff' % name, 'w').write(d)
    print(name, len(d.splitlines()), 'lines')
finally:
    shutil.rmtree(tree, ignore_errors=True)
