#!/venv/bin/python
'''tools/mkmut.py <name> <file-in-repo> <old> <new>  -> /verif/mutants/<name>.diff (repo left clean)'''
import subprocess
import sys
name, path, old, new = sys.argv[1:5]
full = '/repo/' + path
s = open(full).read()
assert s.count(old) >= 1, 'pattern not found in ' + path
open(full, 'w').write(s.replace(old, new, 1))
d = subprocess.run(['git', '-C', '/repo', 'diff'], capture_output=True, text=True).stdout
subprocess.run(['git', '-C', '/repo', 'checkout', '--', path], check=True)
open('/verif/mutants/%s.diff' % name, 'w').write(d)
print(name, len(d.splitlines()), 'lines')
