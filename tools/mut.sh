#!/bin/sh
# usage: tools/mut.sh <patch-file> [--tests] [--in-repo] [--tier T] ID...
#
# Applies a patch to a PRIVATE COPY of /repo's working tree (default; safe to run
# concurrently, /repo is never touched) or, with --in-repo, to /repo itself (always
# reverted on exit). Optionally runs the repository's test-suite on the patched tree,
# then runs the named checks, each under a hard timeout.
patch=$(readlink -f "$1"); shift
tests=0; tier=quick; inrepo=0
while :; do case "$1" in --tests) tests=1; shift;; --in-repo) inrepo=1; shift;; --tier) tier=$2; shift 2;; *) break;; esac; done
if [ $inrepo = 1 ]; then
  tree=/repo
  cd /repo || exit 2
  if [ -n "$(git status --porcelain --untracked-files=no)" ]; then echo "/repo not clean" >&2; exit 2; fi
  trap 'cd /repo && git checkout -- . ' EXIT INT TERM
else
  tree=$(mktemp -d /tmp/mutrepo.XXXXXX)
  trap 'rm -rf "$tree"' EXIT INT TERM
  cp -a /repo/. "$tree"/
  cd "$tree" || exit 2
fi
git apply "$patch" || { echo "patch does not apply" >&2; exit 2; }
if [ $tests = 1 ]; then
  (cd "$tree" && timeout 600 /venv/bin/python -m pytest -q -p no:cacheprovider -x 2>&1 | tail -3)
fi
cd /verif
for id in "$@"; do
  out=$(mktemp /tmp/mut.out.XXXXXX)
  VERIF_REPO="$tree" timeout ${MUT_TIMEOUT:-900} ./check "$id" --tier "$tier" --no-evidence > "$out" 2>&1; rc=$?
  echo "== $id exit=$rc"; grep -E '^(VIOLATION|KNOWN-FINDING|HARNESS|  sig)' "$out" | head -${MUT_LINES:-8}
  rm -f "$out"
done
