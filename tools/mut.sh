#!/bin/sh
# usage: tools/mut.sh <patch-file> [--tests] [--tier T] ID...
# Applies a patch to /repo, optionally runs the repository's test-suite, runs the
# named checks (each under a hard timeout), and ALWAYS reverts /repo afterwards.
patch=$(readlink -f "$1"); shift
tests=0; tier=quick
while :; do case "$1" in --tests) tests=1; shift;; --tier) tier=$2; shift 2;; *) break;; esac; done
cd /repo || exit 2
if [ -n "$(git status --porcelain --untracked-files=no)" ]; then echo "/repo not clean" >&2; exit 2; fi
trap 'cd /repo && git checkout -- . ' EXIT INT TERM
git apply "$patch" || { echo "patch does not apply" >&2; exit 2; }
if [ $tests = 1 ]; then
  timeout 600 /venv/bin/python -m pytest -q -p no:cacheprovider -x 2>&1 | tail -3
fi
cd /verif
for id in "$@"; do
  timeout ${MUT_TIMEOUT:-900} ./check "$id" --tier "$tier" --no-evidence > /tmp/mut.$$.out 2>&1; rc=$?
  echo "== $id exit=$rc"; grep -E '^(VIOLATION|KNOWN-FINDING|HARNESS|  sig)' /tmp/mut.$$.out | head -8
  rm -f /tmp/mut.$$.out
done
