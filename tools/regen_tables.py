'''Regenerate the four PLY table files of a private copy of pyxtuml (usage: regen_tables.py <tree>).
/venv's editable finder would otherwise serve /repo's table modules for a tree that lacks them.'''
import sys, os, glob
tree = os.path.abspath(sys.argv[1])
sys.meta_path[:] = [f for f in sys.meta_path if not getattr(f, '__module__', '').startswith('__editable__')
                    and not type(f).__module__.startswith('__editable__') and '__editable__' not in repr(f)]
sys.path_hooks[:] = [h for h in sys.path_hooks if '__editable__' not in repr(h)]
sys.path_importer_cache.clear()
sys.path.insert(0, tree)
for f in glob.glob(tree + '/bridgepoint/__oal_*tab.py') + glob.glob(tree + '/xtuml/__xtuml_*tab.py'):
    os.remove(f)
import xtuml
from bridgepoint import oal
assert xtuml.__file__.startswith(tree), xtuml.__file__
oal.parse('')
oal.parse('')
xtuml.ModelLoader().input('')
print(sorted(glob.glob(tree + '/bridgepoint/__oal_*tab.py') + glob.glob(tree + '/xtuml/__xtuml_*tab.py')))
