#!/venv/bin/python
'''Regenerates the generated part of DESIGN.md (between the markers) from seeded/*/meta.json and mutants/RESULTS.tsv.'''
import glob
import json
import os
import re

VERIF = os.path.dirname(os.path.dirname(os.path.abspath(__file__)))
BEGIN, END = '<!-- BEGIN GENERATED TABLES -->', '<!-- END GENERATED TABLES -->'


def first_lines(path, n):
    try:
        return open(path).read()
    except OSError:
        return ''


def seed_rows():
    rows = []
    for d in sorted(glob.glob(os.path.join(VERIF, 'seeded', '*'))):
        mp = os.path.join(d, 'meta.json')
        if not os.path.exists(mp):
            continue
        m = json.load(open(mp))
        patch = open(os.path.join(d, 'patch.diff')).read()
        files = sorted(set(re.findall(r'^\+\+\+ b/(\S+)', patch, re.M)))
        funcs = sorted(set(re.findall(r'^@@.*@@\s*(?:def|class)\s+(\w+)', patch, re.M)))
        caught = []
        for c, r in sorted(m.get('checks', {}).items()):
            caught.append('%s: %s' % (c, ('exit %d, %s' % (r['exit'], ', '.join(r['top_signatures'][:2]) or '-')) if r['exit'] == 1
                                      else 'MISSED (exit %d)' % r['exit']))
        rows.append('| %s | %s | %s | %s | %s |' % (os.path.basename(d), m.get('summary', '').replace('|', '/') or '(see notes.md)',
                                                  ', '.join(files), ', '.join(funcs[:3]), '; '.join(caught)))
    return rows


def mutant_rows():
    path = os.path.join(VERIF, 'mutants', 'RESULTS.tsv')
    rows = []
    if os.path.exists(path):
        for line in open(path):
            parts = line.rstrip('\n').split('\t')
            if len(parts) == 4:
                rows.append('| %s | %s | %s | %s |' % (parts[0], parts[1], 'caught' if parts[2] == '1' else ('not caught (exit %s)' % parts[2]), parts[3]))
    return rows


def main():
    out = [BEGIN, '',
           '#### Changes seeded by fresh sub-agents (given only the property text and a scratch worktree)', '',
           'Each kept change passes the repository\'s 244 tests, and its demonstration passes on the unmodified tree and fails with the',
           'change (re-verified by `tools/seed_verify.sh` on a private copy of /repo). Stored as `seeded/<id>/{patch.diff, demo.py, notes.md, meta.json}`.', '',
           '| seed | what it does | files | functions | result of the property\'s check (quick tier) |', '|---|---|---|---|---|']
    out += seed_rows()
    mr = mutant_rows()
    if mr:
        out += ['', '#### Hand-written mutants (`mutants/*.diff`, run by `tools/run_all_mutants.sh`)', '',
                '| mutant | check | outcome | most frequent signature |', '|---|---|---|---|']
        out += mr
    out += ['', END]
    p = os.path.join(VERIF, 'DESIGN.md')
    s = open(p).read()
    block = '\n'.join(out)
    if BEGIN in s:
        s = s[:s.index(BEGIN)] + block + s[s.index(END) + len(END):]
    else:
        s += '\n### 10.4 Which checks catch which deliberate changes\n\n' + block + '\n'
    open(p, 'w').write(s)
    print('tables: %d seeds, %d mutants' % (len(seed_rows()), len(mr)))


if __name__ == '__main__':
    main()
