#!/bin/sh
# Runs every mutants/<cNN>_*.diff against its own check (private /repo copies) and writes mutants/RESULTS.tsv:
# mutant <tab> check <tab> exit <tab> top signature.   usage: tools/run_all_mutants.sh [pattern]
cd "$(dirname "$0")/.." || exit 2
pat=${1:-}
out=mutants/RESULTS.tsv
tmp=$(mktemp)
for m in mutants/*${pat}*.diff; do
  b=$(basename "$m" .diff)
  id=$(echo "$b" | cut -d_ -f1 | tr 'c' 'C')
  res=$(MUT_TIMEOUT=${MUT_TIMEOUT:-1500} MUT_LINES=40 timeout 2000 tools/mut.sh "$m" "$id" 2>&1)
  rc=$(echo "$res" | sed -n 's/^== .* exit=\([0-9]*\)$/\1/p' | head -1)
  sig=$(echo "$res" | grep '^  sig:' | sort | uniq -c | sort -rn | head -1 | awk '{print $3}')
  printf '%s\t%s\t%s\t%s\n' "$b" "$id" "${rc:-?}" "${sig:--}" | tee -a "$tmp"
done
sort "$tmp" > "$out"; rm -f "$tmp"
