#!/bin/sh
# usage: procseed.sh <ID>
id=$1
cd /verif
off=$(ls seeded | grep "^$id-" | sed 's/.*-//' | sort -n | tail -1)
SEED_OFFSET=$off VERIF_JOBS=${VERIF_JOBS:-6} tools/seed_verify.sh $id > /tmp/sv-$id.log 2>&1
mkdir -p /tmp/seedkeep/$id && cp -r /tmp/seed-$id/seed_out/. /tmp/seedkeep/$id/
echo done >> /tmp/sv-$id.log
