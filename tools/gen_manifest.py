#!/venv/bin/python
'''Regenerate /verif/MANIFEST.json from the table below and validate it.'''
import json
import os
import subprocess
import sys

VERIF = os.path.dirname(os.path.dirname(os.path.abspath(__file__)))

# id -> (engine, technique, level text, level note, design ref)
CHECKS = {
    'C17': ('explorer',
            'explicit-state BFS to closure over the real OrderedSet/QuerySet with a list reference model',
            'Every operation (add, discard, remove, pop either end, clear, |= &= -= ^= with every ordered subset as '
            'OrderedSet/QuerySet/list/tuple/generator/self operand, iteration with removal of the visited element at '
            'every subset of positions, forward and reverse) is executed in every reachable canonical state of a 3 '
            '(quick) / 4 (thorough) element universe, to closure; after every transition and in every state the '
            'implementation is compared with a duplicate-free list (order, reverse order, length, membership, '
            'first/last, equality against every ordered collection, subset tests, set algebra). Closure over the '
            'universe subsumes arbitrarily long histories over it.',
            'Trusted: the list reference model; the canonical form (reference list + walk of the internal linked list) '
            'is at least as fine as everything the oracle observes. Element values outside the palettes are not explored.',
            'DESIGN.md section 5, C17'),
    'C02': ('explorer',
            'explicit-state BFS to closure over real metamodels (new/relate/unrelate/delete) against a relational reference model',
            'For each of nine association shapes (1C:1C, 1:MC, formalised on the other side, M:M, reflexive 1C:1C and 1:MC '
            'with phrases, association class, reflexive association class with phrases, sub/super sharing the identifier) '
            'the complete state space reachable with bounded instance pools is searched; in every state every operation of '
            'the menu (every ordered pair of live instances, every relationship number incl. an unknown one, every phrase '
            'incl. none/unknown, both spellings of the number, None arguments, delete incl. repeated delete) is executed on '
            'the real metamodel and on the reference; after every transition: outcome class, symmetry of navigation in both '
            'directions, liveness of everything reachable, referential attribute reads, full equality with the reference, '
            'exact equality with the previous observation after every rejected call, and relate/unrelate round trip.',
            'Trusted: mc/refs/relmodel.py (reference semantics). Bounds: instances ever created per class capped (2 quick, '
            '3-4 thorough); closure under the cap. Canonical form renames instances per class in creation order.',
            'DESIGN.md section 5, C02'),
    'C09': ('explorer',
            'explicit-state BFS to closure over real metamodels; the whole query/navigation menu is evaluated in every state against the relational reference',
            'The state space of C02 restricted to accepted operations, enlarged with attribute values (ties in one, both '
            'and no ordering attribute) and with loader-built seed states that over-populate single-valued ends, is '
            'searched to closure for nine association shapes. In every state every select_many/select_one/select_any with '
            'every sequence of up to 2 (quick) / 3 (thorough) operators (where_eq on one/two/referential attributes, dict '
            'filters, lambdas, order_by / reverse_order_by on one/two attributes) and every type-correct navigation chain '
            'of length up to 3 / 4 (direct, reflexive with each phrase, two-hop through association classes) from None, an '
            'instance, a QuerySet, a list, a generator, with and without closing filters/orderings, in nav(), K[n, phrase] '
            'and lower-case/R<n> spellings, is evaluated on the real metamodel and compared with the reference (content, '
            'order, result type, first-element forms, subtype navigation).',
            'Trusted: mc/refs/relmodel.py. Stable descending order (ties keep incoming order) is what the statement defines. '
            'Subtype navigation with two related subtype instances is only required to return one of them.',
            'DESIGN.md section 5, C09'),
    'C10': ('explorer',
            'explicit-state BFS to closure over attribute writes/deletes/relate under every case pattern of every name, against a dict reference',
            'On a class with an identifying, a plain and a referential attribute, every write and delete under each of the '
            '2^n case patterns of each attribute name, relate/unrelate, and every constructor form (keyword under every '
            'spelling of class and attribute name, positional) is executed in every reachable canonical state (reference '
            'values, last spelling written, keys of the instance dictionary), to closure. In every state every read route is '
            'compared with the reference: getattr under every spelling, serialize_instance, where_eq and dict filters under '
            'every spelling and value, find_metaclass/find_class/select under every class spelling, attribute_type.',
            'Trusted: the reference dict keyed by upper-cased name. After a deletion only uniformity across spellings is required.',
            'DESIGN.md section 5, C10'),
    'C07': ('enumerator',
            'bounded exhaustive enumeration of expression trees, statement productions and layouts, parsed by the real parser (tables regenerated from the working-tree grammar) and compared with the printed tree',
            'All expression trees of depth <= 3 over all 16 binary and 6 unary operators (two operand kinds at depth 3, all 40 '
            'operand kinds at depth <= 2; thorough adds depth 4 over one operator per precedence level), printed with the '
            'minimal parentheses the precedence table requires, fully parenthesised, and with one redundant pair around each '
            'sub-expression in turn; every statement production of the grammar with every combination of its optional words '
            '(coverage of all 128 grammar functions is measured on the instrumented parser and enforced); every program under '
            'the default layout, every single-gap deviation (nothing, spaces, tab, line break, CRLF, block comment, line comment, '
            'multi-line comment), every uniform layout, leading/trailing layout and every white-space variant inside end if/for/'
            'while (thorough: all pairs of deviations for short programs). Oracle: strict structural comparison (class, every '
            'field, child count and order).',
            'Trusted: mc/refs/oalast.py (printer + expected tree). The bootstrap regenerates PLY tables from the grammar, so '
            'precedence/grammar edits that the stale tables in /repo hide are seen; a grammar that no longer builds is reported.',
            'DESIGN.md section 5, C07'),
    'C13': ('enumerator',
            'bounded exhaustive enumeration of strings, token sequences, single-token edits, truncations and pumped inputs (hard-kill time budget) for totality; printed programs with recorded spans for positions',
            'Totality: every string of length <= 3 (thorough 4) over a 37-character alphabet, every token sequence of length <= 2 '
            'over 96 lexemes and <= 3 (thorough 4) over 30 (44), every single-token deletion/duplication/adjacent swap and every '
            'truncation of 400 valid programs must give a tree or oal.ParseException; pumped inputs prefix+unit^n for 17 '
            'lexer-significant prefixes x 41 units x n in {16,32,48} run in disposable processes killed after 2 s (a slow case '
            'must repeat twice alone). Positions: for the C07 program and layout families every statement and expression node '
            'must carry exactly the line/column of its first and last character and the exact substring, incl. spans enlarged '
            'by grouping parentheses and line breaks inside end if/for/while.',
            'Trusted: mc/refs/oalast.py span recording; wall-clock budget with a three-orders-of-magnitude margin.',
            'DESIGN.md section 5, C13; 3.5'),
    'C04': ('explorer',
            'explicit-state BFS over OAL statement sequences: each program runs on the real interpreter and on a reference evaluator over the relational model',
            'From three setup programs (empty; 1:M + reflexive links; association class + chain + set) a breadth-first search '
            'extends every distinct state (reference population + variable environment) with every statement of a typed menu '
            '(all arithmetic, comparison, boolean and unary operators; attribute reads/writes; create/delete; relate/unrelate '
            'with phrases and using; select any/many from instances with where clauses; select one/any/many along chains of '
            'length 1-2 from instances and sets incl. the association-class two-hop form; if/elif/else; while with '
            'break/continue/return/stop; for each with continue/break/delete/nested loops; every return form) to depth 2 '
            '(quick) / 3 (thorough). Every candidate program, followed by generated statements that copy each variable in scope '
            'into a PROBE instance, runs through interpret.run_function on a fresh Domain and through the reference evaluator; '
            'return value, instance counts, attribute values, links and referential reads must agree.',
            'Trusted: mc/refs/oaleval.py + relmodel.py. Programs the reference rejects (ill-typed, erroneous, diverging, '
            'dialect-dependent arithmetic) are excluded, counted as out_of_domain.',
            'DESIGN.md section 5, C04'),
    'C08': ('enumerator',
            'differential enumeration: every program under every per-keyword-kind case rendering (bounded product / deviations) through parser, interpreter and prebuild',
            'Parse path: the 400+ statement programs of C07 (every production), every operand kind and operator expressions, '
            'each under the full product of {lower, UPPER, Capitalised, mIxEd} per keyword kind for programs with <= 3 (thorough '
            '5) kinds and uniform + all single + all double deviations otherwise; the tree must equal the printed tree with '
            'keyword-text fields compared case-insensitively and .many exact. Interpret path: every setup+statement program of '
            'the C04 menu under the three uniform non-lower renderings and each keyword kind of the last statement alone in '
            'UPPER (thorough also mixed); result and final population must equal the reference. Prebuild path: canonical dump of '
            'all prebuilt instances equal to the lower-case rendering (when the prebuild host of C05/C06 is present).',
            'Trusted: oalast printer, oaleval reference.',
            'DESIGN.md section 5, C08'),
    'C15': ('enumerator',
            'bounded exhaustive enumeration of call systems (assignments of OAL bodies to callable model elements) x entry calls x row orders, real component vs reference evaluator',
            'A BridgePoint model with functions f, g, h, class A (instance operation, class operation, derived attribute), '
            'external entity EE with a bridge, enumeration Color chained by R56 and four constants is synthesised through the '
            'ooaofooa API for every assignment of bodies from menus of 9/4/3/4/3/2/3 bodies (quick: default + every single '
            'deviation + product of a sub-menu; thorough: full product of 7776 systems): every return form (value, bare, none, '
            'inside loop and nested if), direct and mutual recursion, calls in expressions / where clauses / loop conditions / '
            'parameters of other calls, permuted by-name parameters, callees assigning the callers variable names, self reads '
            'and writes, derived attributes calling functions. 38 entry calls per system from python (find_symbol, class and '
            'instance members, derived reads before/after a write, enumerators, constants) and from OAL callers are compared '
            'with the reference evaluator (value and population). Row order: the model is serialised, the rows of S_ENUM, '
            'S_SPARM, O_TPARM, CNST_SYC, CNST_LSC, S_SYNC, O_TFR, O_ATTR permuted (all permutations up to 4 rows, else '
            'reversal/rotations; whole file reversed), reloaded through ModelLoader.input, and must behave identically.',
            'Trusted: mc/refs/oaleval.py. Bodies use the constructs C04 checks separately.',
            'DESIGN.md section 5, C15'),
    'C01': ('enumerator',
            'bounded exhaustive enumeration of metamodels x serialization routes; snapshot equality and serialisation fixed point on the real persist/load code',
            'Four exhaustive families: values (every string up to length 2 (thorough 3) over an 11-character alphabet of quotes, '
            'comment markers, line breaks, NUL, non-ASCII plus 13 adversarial strings, in three attribute orders; the full '
            'product of 10 integers x 9 reals x 4 ids x 2 booleans incl. >64-bit and 128-bit values; every attribute unset); '
            'links (36 schemas: nine association shapes, integer/string/real/boolean/two-attribute keys, phrased non-reflexive, '
            'all 16 multiplicity/conditionality combinations; every population of 0-2 (3) instances per class and every function '
            'referring instance -> referred instance or null that the API accepts); names that are words of the format (20 '
            'words as class, attribute, index name and phrase, one at a time and all at once; mixed-case type names); all '
            'definition orders of three classes and three associations. Every metamodel goes through serialize_database, '
            'schema+instances+identifiers as one text and as three inputs in all six orders, serialize() dispatch, '
            'persist_database, persist_schema/instances/unique_identifiers files in three orders, and instances-only loading; '
            'the reloaded snapshot (classes, types, identifiers, associations with keys/cardinalities/phrases, instances in '
            'order, links in both directions) must be equal and serialising the reloaded model must be a fixed point.',
            'Trusted: mc/refs/sqlmodel.py snapshot. Domain restrictions are listed in the evidence assumptions.',
            'DESIGN.md section 5, C01'),
    'C03': ('enumerator',
            'bounded exhaustive enumeration of populations, statement permutations, input partitions and file/dir/zip spreads on the real loader, against the relational join of the reference',
            'Join: for ten schemas (integer / id / two-attribute (string, id) / boolean / real keys, a referential attribute shared '
            'by two associations, reflexive, association class, reflexive association class, phrased non-reflexive) every '
            'population of up to 2 referred and 2 (thorough 3) referring rows over key alphabets with nulls in every form (id 0, '
            'empty string, column absent), duplicates and dangling values, in 2 (4) insert styles (positional/named, reversed '
            'column order, uuid/integer ids, TRUE/1 booleans), is loaded and navigation in both directions plus referential reads '
            'compared with the join. Order: for every selected input of <= 6 (7) statements all permutations, all contiguous '
            'splits into <= 3 input() calls in every call order; spreads of the statements over a two-level directory tree, the '
            'files one by one and a zip archive with a decoy member through bridgepoint ModelLoader.filename_input. API route: the '
            'same rows through MetaModel.new with referential values (referred first) and clone().',
            'Trusted: relmodel.Ref.load (the definition of loading). Two recorded findings (F-C03a/b) concern the API route on '
            'associations with differing phrases; they cannot be repaired without failing six repository tests.',
            'DESIGN.md section 5, C03; section 6'),
    'C16': ('enumerator',
            'bounded exhaustive enumeration of arrangements (partial injective successor maps = all chain/ring arrangements and creation orders) x every ordered subset x both phrases on the real sort_reflexive',
            'Every arrangement of up to 5 (thorough 6, and 7 for chain-only worlds and full rings) instances into chains and '
            'rings with every creation order, every ordered subset of the instances as the input set, both phrases, plus a '
            'second reflexive association as a distractor: for sets made of whole chains, a single whole ring or nothing the '
            'full oracle (every member once, chains contiguous from the member without partner across the phrase along the '
            'opposite phrase, reverse for the other phrase, ring once around from the sets first member, empty result) applies; '
            'for every other set termination within 1 s (three attempts), no repeats and nothing outside the set.',
            'Trusted: the plain-python successor-map reference. The relative order of different chains is not claimed.',
            'DESIGN.md section 5, C16'),
    'C19': ('explorer',
            'bounded exhaustive enumeration of schemas x creation-call shapes x generators, plus explicit-state BFS to closure over peek/next/new histories',
            'All attribute-type lists of length <= 3 (thorough 4, reduced) over the five core types in several spellings, with a '
            'referential attribute or an unknown type at every position, every split of the attributes into positional prefix / '
            'keyword / omitted incl. keyword and positional for the same attribute, three generators and three creation routes: '
            'defaults by value and type, positional-then-keyword application, ids from the generator, non-null, never repeated, '
            'unknown type rejected with a MetaException. Histories: breadth-first search to closure (counter cap 6/9) over peek, '
            'next(), next(gen) and new on classes with 0-2 id attributes for IntegerGenerator, UUIDGenerator, the default '
            'generator and user subclasses; all interleavings of two live generators.',
            'Trusted: the counter reference. For UUID generators only non-null, distinct, fresh and consistent-with-peek are checked.',
            'DESIGN.md section 5, C19'),
    'C12': ('enumerator',
            'bounded exhaustive enumeration of strings, token sequences, single-token edits, statement-unit sequences, pumped inputs (hard-kill CPU budget) and loader histories on the real loader',
            'Every string of length <= 3 (thorough 4) over 30 characters; every token sequence of length <= 3 over all 27 token '
            'kinds plus length 4 over 22 (thorough <= 4 over 27 plus 5 over 19); for 41 (360) generated valid files every token '
            'deletion, duplication, adjacent swap, eight lexical-class flips per value and every truncation; all sequences of <= 3 '
            '(4) well-formed statement units referring to known and unknown classes, attributes, types and arities; pumped inputs '
            'in disposable processes: ModelLoader.input returns or raises ParsingException, build_metamodel returns or raises '
            'ParsingException or a MetaException, nothing else, in bounded time. Histories: all sequences of <= 4 (5) inputs '
            'over three accepted and three rejected texts with every build placement: a deep snapshot of loader.statements is '
            'unchanged after a rejection, every build equals (xtuml.serialize) the build of a fresh loader fed only the '
            'accepted texts, and every accept/reject outcome equals that of the fresh loader.',
            'Trusted: the differential oracle against fresh loaders; the time verdict is taken on CPU seconds of the child with '
            'double confirmation in a fresh process.',
            'DESIGN.md section 5, C12; 3.5'),
    'C05': ('enumerator',
            'bounded exhaustive enumeration of well-formed programs x four action homes through the real prebuild and text generation; strict parse-tree comparison and regeneration fixed point',
            'A consistent host model (classes A, B, C with every core attribute type, enum, derived and referential attributes; '
            'simple, reflexive and linked relationships with all R_OIR/R_RGO/R_RTO rows; functions, bridges, instance and class '
            'operations, enumeration, constant) is built through the xtuml API; four program families (every statement form; '
            'typed expression trees to depth 3 (thorough 4); sequences of length 2-3 (3-4) over statement menus; control-flow '
            'nesting 2 (3)), filtered for well-formedness per home by an independent scoping/typing analyser, are placed in '
            'function, bridge, instance operation and derived-attribute homes, translated by prebuild_action / prebuild_model '
            'in a forked snapshot of the host, regenerated with gen_text_action, and the parse of the generated text compared '
            'strictly with the printed tree (modulo the optional words of the language); translating the generated text again '
            'must reproduce the same text.',
            'Trusted: mc/refs/prebuildhost.py (host, analyser), oalast printer. Un-namespaced constants, ports, signals, events excluded.',
            'DESIGN.md section 5, C05'),
    'C06': ('enumerator',
            'the same bounded exhaustive program families and homes as C05; independent constraint counter, subtype counts, chain directions, positions, block membership and typing on the prebuilt population',
            'For every program x home of the C05 families, in two (thorough three) layouts: the model is consistent '
            '(is_consistent and an independent count of every multiplicity/uniqueness constraint of the ooaofooa schema); every '
            'ACT_SMT / V_VAL has exactly one subtype counted over all subtype classes; Previous_Statement_ID, Next_Value_ID and '
            'Next_Link_ID as persisted designate the neighbour in source order (none at the ends); statements and values carry '
            'the line/columns recorded by the printer; every variable belongs to the block that declares it; value and variable '
            'data types equal the OAL typing the statement enumerates.',
            'Trusted: prebuildhost analyser and constraint counter. Arithmetic result types, selected, elif/else pseudo-statements are not claimed.',
            'DESIGN.md section 5, C06'),
    'C14': ('explorer',
            'explicit-state BFS over edit scripts on real and synthesised BridgePoint models; component extraction compared with an independent abstract class-diagram model, plus exhaustive row permutations',
            'States are edit scripts of length <= 2 (thorough 3) on the real Simple_Model.xtuml and on a rich synthesised diagram '
            '(rename / retype / move attributes, add / remove identifier attributes, toggle derived, set multiplicity, '
            'conditionality and phrases on every relationship end, move elements between scopes, renumber relationships), '
            'canonicalised by an abstract diagram extracted from the rows independently of ooaofooa; plus a family of 166 '
            'one-relationship diagrams (simple / linked / sub-super x end combinations x reflexive x key arity x formalising '
            'side). In every state, for derived_attributes in {False, True} and for the whole model and every component: the '
            'schema of mk_component equals the expected schema computed from the diagram (classes, attribute order, core '
            'types, identifiers, associations with keys / multiplicity / conditionality per end / phrases), the persisted '
            'schema loads back to the same definitions, build_component and gen_sql_schema.main agree (shallow depths), the '
            'difference to the parent state stays inside the edited item, and the result is identical for the reversed file, '
            'every rotation and all permutations of every group of <= 6 rows.',
            'Trusted: mc/refs/bpsynth.py (abstract diagram, expected schema). Identifier attribute lists and key pairs are compared as sets.',
            'DESIGN.md section 5, C14'),
    'C20': ('explorer',
            'explicit-state BFS over edit scripts on real BridgePoint models; generated XSD compared with the declarations expected from the independent abstract model, plus row permutations',
            'States are edit scripts of length <= 2 (thorough 3) on Simple_Model.xtuml and a rich synthesised model (rename / '
            'retype / add attribute, add / reorder enumerators by R56 and independently by row order, add user types, move '
            'elements between components, rename class, toggle derived). In every state and for every component the tree '
            'returned by gen_xsd_schema.build_schema (re-parsed: well-formed), its prettified text and the file written by '
            'gen_xsd_schema.main (shallow depths) are compared with the expected declarations: one element per contained '
            'class, one attribute per non-derived attribute of a supported type typed by the (referred) base type, one simple '
            'type per core / enumeration / user type in scope with enumerators in R56 order; locality of the diff to the parent '
            'state; identical results for the reversed file, rotations and permutations of row groups.',
            'Trusted: mc/refs/bpsynth.py expected_xsd. Order of declarations and min/maxOccurs are not compared.',
            'DESIGN.md section 5, C20'),
    'C11': ('enumerator',
            'bounded exhaustive enumeration of models (association shapes x populations with under/over-populated ends x identifier sets) and of -r/-k command lines, plus BFS over API histories, against independent violation counts',
            'Five stages, each exhaustive inside its bounds: a composite model with the numbers R1, R11, R12, R4 (prefix traps) '
            'in every combination of per-component scenarios, every API restriction and every subset of -r {1,11,12,4,99} x -k '
            'through xtuml.consistency_check.main and through runpy as __main__ (exit status); the bridgepoint command line on '
            'every subset of six BridgePoint rows with and without -g; identifier sets (14 identifier lists over two attributes, '
            'three types in three spellings, values from unset / id 0 / v1 / v2); all nine association shapes with referred ids '
            'and referential values over null / k1 / k2 / dangling / duplicated, loaded with nulls as id 0 and as absent '
            'columns; BFS to closure over new / relate / unrelate / delete histories from empty and loader-built seeds. '
            'Compared in every model: check_association_integrity (total and per number, int and R<n> spelling), '
            'check_uniqueness_constraint (total and per class), is_consistent, check_subtype_integrity, CLI return values and '
            'exit statuses, against counts computed from the relational reference.',
            'Trusted: relmodel counts. Where one instance repeats two identifiers either counting rule is accepted; empty strings '
            'and numeric zeros in identifiers are not generated.',
            'DESIGN.md section 5, C11'),
    'C18': ('explorer',
            'explicit-state BFS over interleavings of input / build / mutation on one loader; differential oracle against fresh loaders and non-interference between live metamodels',
            'Operations: input of three valid chunks in any order plus one chunk rejected as a whole, build (up to 2 (3) live '
            'metamodels), and on any built metamodel new, delete, attribute write, relate, unrelate, append / insert / delete '
            'attribute, define_unique_identifier, define_class; all interleavings to depth 6 (thorough 7), deduplicated by '
            'canonical state. After every step, for every live metamodel: xtuml.serialize and a snapshot are unchanged by any '
            'step not addressed to it, both equal a replica built from a fresh loader fed exactly the chunks accepted before '
            'that build with that metamodels mutations replayed, and every return value / exception class equals the replicas.',
            'Trusted: the replica construction (fresh loaders). The depth bound is the stated bound; identity sharing between builds is recorded as implementation-only state.',
            'DESIGN.md section 5, C18'),
}

NOT_YET = 'not claimed in this revision'


# what rounds 7-10 of the detection experiments added to a check (appended to its level text)
ADDENDA = {
    'C01': ' Bulk family: populations of 99 .. 1000 (thorough 5000) instances of two linked classes through every route.',
    'C06': ' The host model declares user data types over core types and over each other (attributes, parameters, return types); 128 programs '
           'read them as first assignments, copies, arguments and operands; the second-model family prebuilds a program touching every type first.',
    'C08': ' `select one` along chains reaching several instances is compared across spellings.',
    'C13': ' At most three inputs whose parsing exceeds the budget are confirmed one at a time (the rest is counted).',
    'C17': ' Also `&=` with one-shot iterators, and a large-set family (sizes 0, 1, 2, 255..258, 1000; thorough 5000, 70000) compared '
           'with every ordered collection and four near misses after every step.',
    'C18': ' Two rows of the input chunks use the named-column INSERT form.',
    'C02': ' Shapes added later: two single-valued references, compound key, one referential attribute formalising two associations '
           '(with unique_id and with integer identifiers, so that linked partners with the identifier 0 occur), 1:1 unconditional.',
    'C03': ' Every split of an input over several input() calls is also fed with a build after every call; directory trees whose files share one name.',
    'C04': ' The selection family also covers chains that return to instances already passed and whole selections (select many + cardinality); '
           'programs that differ only in blank space inside a string literal are run one after the other in one process.',
    'C05': ' Programs with elif clauses are also translated from texts laid out with a line per clause in equal, falling and rising columns, '
           'with and without // comments ending the lines; unary operators applied to the value of unary operators.',
    'C09': ' Ask / change / ask again: in every reachable state a menu of identifier-covering equality queries and one-hop navigations is asked, '
           'one change is made (every enabled operation; every write of a plain or identifying attribute) and both menus are asked again.',
    'C10': ' The referential-chain family also starts from loaded instances whose references are null (zero id / absent column).',
    'C11': ' Loader family also over a reflexive association whose ends carry equal phrases; three-instance models for identifier lists with two identifiers in the quick tier.',
    'C15': ' Functions whose names differ in letter case only are called from Python and from OAL.',
    'C16': ' The sorted association is neither the first nor the last of three reflexive associations of its class.',
    'C19': ' A plain iterator (itertools.count) as the generator of a metamodel in the creation family.',
}


# what round 11 added
ADDENDA11 = {
    'C01': ' Nullkey family: every link population in which a referred-to instance nobody refers to holds the null of its key type '
           "('' / unset unique_id / unique_id 0) beside a referring instance that refers to nothing.",
    'C03': ' Directory trees with pattern characters and leading dots in their names; the clone route also takes rows whose identifying value is unset.',
    'C04': ' Eqchain family: where clauses of two or three equality terms on `selected` incl. one attribute constrained twice '
           '(equal / different values, literals / variables, both operand orders) in select many / any / related by.',
    'C05': ' Shadow family (locals named like constants / enumerators of the host, every declaration form x every kind of read) and rescope '
           'family (a name declared in a nested block and again afterwards with another type, used type-specifically; 11 placements).',
    'C15': ' Parameter-name family (476 names from the library\'s own code objects as parameters of every kind of callable, from Python and OAL) '
           'and shadow family (locals named like functions, constants, enumerations, external entities, classes; read-call-read histories).',
    'C17': ' A palette of elements every use of which is a fresh equal copy.',
    'C06': ' Handles family: `<handle>.<name>` reads and writes through every kind of handle expression (parameters of type inst_ref, array '
           'elements, attributes and structure members holding handles, chains) for names the translation treats specially (length), beside genuine array lengths.',
    'C14': ' Relationships may share a number (renumbering to the number of another simple relationship between other classes).',
    'C07': ' Names family: every non-keyword token name of the grammar and 33 keyword-like names as identifier in fifteen name positions.',
    'C08': ' Operation bodies whose keyword operators have operands with an effect are compared across spellings.',
    'C10': ' Null family: None, the null value of the type and a non-null value written under every spelling to identifying, plain and '
           'referential attributes of every core type; reads compared by type and value, filters with every null-ish value under every spelling.',
    'C11': ' Late family: the associations are defined and formalized by an operation of the history, after any mix of creations; '
           'identifiers also cover referential attributes.',
    'C12': ' The statement pool holds a class without attributes, associations to and from it, a row and an identifier of it; value flips '
           'include strings whose content looks like another lexical class.',
    'C18': ' The chunks carry a two-attribute-key association; an identifier listing the referred attributes the other way round is '
           'added to one built metamodel; the reference loader of every build gets the accepted input as one text.',
    'C19': ' Names family: attribute names drawn from the identifiers of the library\'s own code objects (209 quick / 351 thorough) in every '
           'creation form and route, read back and cloned.',
    'C20': ' A second data type under the name of an existing enumeration / user type is added in every other place; classes may share a number.',
}
for _k, _v in ADDENDA11.items():
    ADDENDA[_k] = ADDENDA.get(_k, '') + _v


def main():
    props = [json.loads(l)['id'] for l in open(os.path.join(VERIF, 'properties.jsonl'))]
    checks = []
    for pid in props:
        if pid not in CHECKS:
            continue
        engine, technique, text, note, ref = CHECKS[pid]
        text += ADDENDA.get(pid, '')
        checks.append(dict(
            property_id=pid,
            quick_cmd='./check %s --tier quick' % pid,
            thorough_cmd='./check %s --tier thorough' % pid,
            evidence_file='/verif/evidence/%s.json' % pid,
            replay_cmd_template='./check %s --replay {path}' % pid,
            engine=engine,
            technique=technique,
            level_claimed=dict(category='model_checking', text=text, design_ref=ref),
            level_note=note))
    na = [dict(property_id=p, reason=NOT_YET) for p in props if p not in CHECKS]
    man = dict(
        version=1,
        setup_cmd='./setup.sh',
        hooks=dict(guard='PYXTUML_VERIF',
                   enable='no source hooks are needed; the checks set PYXTUML_VERIF=1 and import a scratch copy of '
                          "/repo's working tree with PLY tables regenerated from the grammar",
                   baseline_off_cmd='cd /repo && /venv/bin/python -m pytest -q -p no:cacheprovider',
                   source_commits=[], add_only=True),
        engines=[
            dict(name='explorer', path='mc/explorer.py',
                 serves_properties=[p for p in props if p in CHECKS and CHECKS[p][0] == 'explorer'],
                 kind_free_text='hand-written explicit-state breadth-first search: each transition calls the real '
                                'pyxtuml operation and a python reference model in lock-step; states are histories, '
                                'deduplicated by canonical form; closure or stated depth bound'),
            dict(name='enumerator', path='mc/core.py',
                 serves_properties=[p for p in props if p in CHECKS and CHECKS[p][0] == 'enumerator'],
                 kind_free_text='(Ctx.pmap in mc/core.py drives generators written in each mc/props/<id>.py) bounded exhaustive generators (all inputs/programs/configurations of a finite '
                                'described family, deviation-bounded where a full product is infeasible) run on the '
                                'real code and compared with reference models / differential oracles'),
        ],
        checks=checks,
        not_applicable=na,
        notes='All checks: ./check <ID> [--tier quick|thorough] [--replay FILE]; exit 0 held, 1 VIOLATION, 2 harness '
              'error. Known findings: known_findings.json. Seeded property-breaking changes: seeded/.')
    path = os.path.join(VERIF, 'MANIFEST.json')
    with open(path, 'w') as f:
        json.dump(man, f, indent=1)
        f.write('\n')
    schema = '/root/.vp/MANIFEST.schema.json'
    if os.path.exists(schema) and os.path.exists('/opt/veriftools/pyvenv/bin/python'):
        r = subprocess.run(['/opt/veriftools/pyvenv/bin/python', '-c',
                            'import json,sys,jsonschema; jsonschema.Draft202012Validator(json.load(open(sys.argv[1])))'
                            '.validate(json.load(open(sys.argv[2])))', schema, path],
                           env={k: v for k, v in os.environ.items() if not k.startswith('PYTHON')})
        if r.returncode:
            sys.exit('MANIFEST.json does not validate')
    print('MANIFEST.json: %d checks, %d not_applicable' % (len(checks), len(na)))


if __name__ == '__main__':
    main()
